#![allow(unused)]
use wtransport_proto::varint::VarInt;
use wtransport_proto::bytes::{BufferReader, BufferWriter, BytesReader, BytesWriter};
use wtransport_proto::frame::{Frame, FrameKind};

#[cfg(kani)]
#[kani::proof]
#[kani::unwind(10)]
fn varint_roundtrip() {
    let v: u64 = kani::any();
    kani::assume(v <= VarInt::MAX.into_inner());
    let vi = VarInt::try_from_u64(v).unwrap();
    let mut buf = [0u8; 8];
    let mut w = BufferWriter::new(&mut buf);
    w.put_varint(vi).unwrap();
    let n = w.offset();
    assert_eq!(n, vi.size());
    let mut r = BufferReader::new(&buf[..n]);
    let back = r.get_varint().unwrap();
    assert_eq!(back.into_inner(), v);
    assert_eq!(r.offset(), n);
}

#[cfg(kani)]
#[kani::proof]
#[kani::unwind(20)]
fn frame_read_total() {
    let buf: [u8; 12] = kani::any();
    let len: usize = kani::any();
    kani::assume(len <= 12);
    let mut s: &[u8] = &buf[..len];
    let r = Frame::read(&mut s);
    match r {
        Ok(Some(f)) => { assert!(f.payload().len() <= 12); }
        _ => {}
    }
}

use wtransport_proto::qpack::Decoder;
use wtransport_proto::settings::Settings;
use std::borrow::Cow;

#[cfg(kani)]
#[kani::proof]
#[kani::unwind(16)]
fn qpack_decode_total() {
    let buf: [u8; 13] = kani::any();
    let len: usize = kani::any();
    kani::assume(len <= 13);
    let r = Decoder::decode(&buf[..len]);
    core::mem::forget(r);
}

#[cfg(kani)]
#[kani::proof]
#[kani::unwind(6)]
fn settings_total() {
    let buf: [u8; 4] = kani::any();
    let len: usize = kani::any();
    kani::assume(len <= 4);
    let f = Frame::new_settings(Cow::Borrowed(&buf[..len]));
    let r = Settings::with_frame(&f);
    core::mem::forget(r);
}

use wtransport_proto::ids::{StatusCode, SessionId, StreamId, QStreamId};
use wtransport_proto::stream::Stream;
use wtransport_proto::stream_header::{StreamHeader, StreamKind};
use wtransport_proto::error::ErrorCode;

#[cfg(kani)]
#[kani::proof]
#[kani::unwind(8)]
fn status_from_str_range() {
    let b: [u8; 5] = kani::any();
    let len: usize = kani::any();
    kani::assume(len <= 5);
    let mut i = 0;
    while i < 5 { kani::assume(b[i] < 0x80); i += 1; }
    let s = unsafe { std::str::from_utf8_unchecked(&b[..len]) };
    if let Ok(code) = s.parse::<StatusCode>() {
        let v = code.into_inner();
        assert!(v >= 100 && v <= 599);
    }
}

#[cfg(kani)]
#[kani::proof]
fn ids_algebra() {
    let v: u64 = kani::any();
    kani::assume(v <= VarInt::MAX.into_inner());
    let vi = VarInt::try_from_u64(v).unwrap();
    let sid = StreamId::new(vi);
    assert_eq!(sid.is_bidirectional(), v & 2 == 0);
    assert_eq!(sid.is_client_initiated(), v & 1 == 0);
    let is_server: bool = kani::any();
    assert_eq!(sid.is_local(is_server), (v & 1 == 1) == is_server);
    match SessionId::try_from_session_stream(sid) {
        Ok(s) => {
            assert!(v & 3 == 0);
            assert_eq!(s.into_u64(), v);
            let q = QStreamId::from_session_id(s);
            assert_eq!(q.into_u64(), v >> 2);
            assert!(q.into_u64() <= QStreamId::MAX.into_u64());
            assert_eq!(q.into_session_id().into_u64(), v);
            assert_eq!(q.into_stream_id().into_u64(), v);
        }
        Err(_) => assert!(v & 3 != 0),
    }
}

// C13 probe: an unknown (non-GREASE) frame before a SETTINGS frame on a control stream
#[cfg(kani)]
#[kani::proof]
#[kani::unwind(12)]
fn unknown_frame_skipped_whole() {
    // unknown type t (1 byte), length l, payload (l bytes), then SETTINGS frame with empty payload
    let t: u8 = kani::any();
    kani::assume(t < 0x40);
    kani::assume(t != 0x00 && t != 0x01 && t != 0x04);
    kani::assume(!(t >= 0x21 && (t - 0x21) % 0x1f == 0));
    let l: u8 = kani::any();
    kani::assume(l <= 3);
    let p: [u8; 3] = kani::any();
    let mut buf = [0u8; 8];
    buf[0] = t; buf[1] = l;
    let mut i = 0usize;
    while i < l as usize { buf[2 + i] = p[i]; i += 1; }
    let n = 2 + l as usize;
    buf[n] = 0x04; buf[n + 1] = 0x00;
    let total = n + 2;

    let mut hdr: &[u8] = &[0x00];
    let q = Stream::accept_uni();
    let mut h3 = match q.upgrade(&mut hdr) {
        Ok(wtransport_proto::stream::uniremote::MaybeUpgradeH3::H3(s)) => s,
        _ => unreachable!(),
    };
    let mut rd: &[u8] = &buf[..total];
    let r = h3.read_frame(&mut rd);
    match r {
        Ok(Some(f)) => { assert!(matches!(f.kind(), FrameKind::Settings)); assert!(rd.is_empty()); }
        _ => assert!(false, "unknown frame not skipped whole"),
    }
}

use std::future::Future;
use std::pin::Pin;
use std::task::{Context, Poll, Waker};
use wtransport_proto::frame;
use wtransport_proto::bytes as wbytes;

fn io_err_stub(e: std::io::Error) -> wbytes::IoReadError { core::mem::forget(e); wbytes::IoReadError::NotConnected }

fn poll_once<F: Future>(fut: F) -> Option<F::Output> {
    let mut fut = std::pin::pin!(fut);
    let mut cx = Context::from_waker(Waker::noop());
    match fut.as_mut().poll(&mut cx) { Poll::Ready(v) => Some(v), Poll::Pending => None }
}

#[cfg(kani)]
#[kani::proof]
#[kani::unwind(8)]
#[kani::stub(<wtransport_proto::bytes::IoReadError as std::convert::From<std::io::Error>>::from, io_err_stub)]
fn frame_async_slice_reader() {
    const N: usize = 6;
    let buf: [u8; N] = kani::any();
    let len: usize = kani::any();
    kani::assume(len <= N);
    kani::assume(buf[0] < 0x40);
    kani::assume(buf[0] == 0x41 || buf[1] <= 3);
    let data = &buf[..len];

    let mut s: &[u8] = data;
    let sync = Frame::read(&mut s);
    let sync_consumed = len - s.len();

    let mut a: &[u8] = data;
    let asy = poll_once(Frame::read_async(&mut a)).unwrap();
    let asy_consumed = len - a.len();

    match (sync, asy) {
        (Ok(Some(fs)), Ok(fa)) => {
            assert!(fs.payload().len() == fa.payload().len());
            assert!(sync_consumed == asy_consumed);
            core::mem::forget(fa);
        }
        (Ok(None), Err(frame::IoReadError::IO(wbytes::IoReadError::ImmediateFin))) => { assert!(len == 0); }
        (Ok(None), Err(frame::IoReadError::IO(wbytes::IoReadError::UnexpectedFin))) => { assert!(len > 0); }
        (Err(frame::ParseError::UnknownFrame), Err(frame::IoReadError::Parse(frame::ParseError::UnknownFrame))) => { assert!(sync_consumed == asy_consumed); }
        (Err(frame::ParseError::InvalidSessionId), Err(frame::IoReadError::Parse(frame::ParseError::InvalidSessionId))) => {}
        (Err(frame::ParseError::PayloadTooBig), Err(frame::IoReadError::Parse(frame::ParseError::PayloadTooBig))) => {}
        _ => { assert!(false, "sync/async disagree"); }
    }
}

#[cfg(kani)]
#[kani::proof]
fn grease_ids() {
    let n: u64 = kani::any();
    kani::assume(n <= (VarInt::MAX.into_inner() - 0x21) / 0x1f);
    let id = VarInt::try_from_u64(0x1f * n + 0x21).unwrap();
    assert!(FrameKind::is_id_exercise(id));
    assert!(StreamKind::is_id_exercise(id));
    let r: u64 = kani::any();
    kani::assume(r >= 1 && r <= 30);
    let v = 0x1f * n + 0x21 + r;
    kani::assume(v <= VarInt::MAX.into_inner());
    let id2 = VarInt::try_from_u64(v).unwrap();
    assert!(!FrameKind::is_id_exercise(id2));
    let small: u64 = kani::any();
    kani::assume(small < 0x21);
    assert!(!FrameKind::is_id_exercise(VarInt::try_from_u64(small).unwrap()));
}

#[cfg(kani)]
#[kani::proof]
fn grease_ids_w32() {
    let n: u64 = kani::any();
    kani::assume(n <= (0xffff_ffffu64 - 0x21) / 0x1f);
    let id = VarInt::try_from_u64(0x1f * n + 0x21).unwrap();
    assert!(FrameKind::is_id_exercise(id));
    let r: u64 = kani::any();
    kani::assume(r >= 1 && r <= 30);
    let id2 = VarInt::try_from_u64(0x1f * n + 0x21 + r).unwrap();
    assert!(!FrameKind::is_id_exercise(id2));
}

#[cfg(kani)]
#[test]
fn kani_concrete_playback_status_from_str_range_1() {
    let concrete_vals: Vec<Vec<u8>> = vec![
        vec![50], vec![55], vec![122], vec![90], vec![56],
        vec![2, 0, 0, 0, 0, 0, 0, 0],
    ];
    kani::concrete_playback_run(concrete_vals, status_from_str_range);
}

#[cfg(kani)]
fn frame_async_inst<const LEN: usize, const PL: u8>() {
    let mut buf: [u8; LEN] = kani::any();
    kani::assume(buf[0] < 0x40 && buf[0] != 0x41);
    if LEN >= 2 { buf[1] = PL; }
    let data = &buf[..];

    let mut s: &[u8] = data;
    let sync = Frame::read(&mut s);
    let sync_consumed = LEN - s.len();

    let mut a: &[u8] = data;
    let asy = poll_once(Frame::read_async(&mut a)).unwrap();
    let asy_consumed = LEN - a.len();

    match (sync, asy) {
        (Ok(Some(fs)), Ok(fa)) => {
            assert!(fs.payload().len() == fa.payload().len());
            let mut i = 0; while i < fs.payload().len() { assert!(fs.payload()[i] == fa.payload()[i]); i += 1; }
            assert!(sync_consumed == asy_consumed);
            core::mem::forget(fa);
        }
        (Ok(None), Err(frame::IoReadError::IO(wbytes::IoReadError::ImmediateFin))) => { assert!(LEN == 0); }
        (Ok(None), Err(frame::IoReadError::IO(wbytes::IoReadError::UnexpectedFin))) => { assert!(LEN > 0); }
        (Err(frame::ParseError::UnknownFrame), Err(frame::IoReadError::Parse(frame::ParseError::UnknownFrame))) => { assert!(sync_consumed == asy_consumed); }
        (Err(frame::ParseError::InvalidSessionId), Err(frame::IoReadError::Parse(frame::ParseError::InvalidSessionId))) => {}
        (Err(frame::ParseError::PayloadTooBig), Err(frame::IoReadError::Parse(frame::ParseError::PayloadTooBig))) => {}
        _ => { assert!(false, "sync/async disagree"); }
    }
}

#[cfg(kani)]
#[kani::proof]
#[kani::unwind(8)]
#[kani::stub(<wtransport_proto::bytes::IoReadError as std::convert::From<std::io::Error>>::from, io_err_stub)]
fn frame_async_len5_pl2() { frame_async_inst::<5, 2>() }

#[cfg(kani)]
#[kani::proof]
#[kani::unwind(8)]
#[kani::stub(<wtransport_proto::bytes::IoReadError as std::convert::From<std::io::Error>>::from, io_err_stub)]
fn frame_async_len3_pl2() { frame_async_inst::<3, 2>() }

// C12-style: depth-2 sequences over an alphabet on the control stream (uniremote), symbolic selectors
#[cfg(kani)]
fn put_frame(sel: u8, out: &mut [u8; 16], at: usize, pb: u8) -> usize {
    // returns new position
    match sel {
        0 => { out[at] = 0x00; out[at+1] = 1; out[at+2] = pb; at + 3 }          // DATA, 1 byte
        1 => { out[at] = 0x01; out[at+1] = 1; out[at+2] = pb; at + 3 }          // HEADERS
        2 => { out[at] = 0x04; out[at+1] = 0; at + 2 }                           // SETTINGS empty
        3 => { out[at] = 0x40; out[at+1] = 0x41; out[at+2] = 0x00; at + 3 }     // WT signal sid 0 (2-byte type)
        4 => { out[at] = 0x40; out[at+1] = 0x41; out[at+2] = 0x01; at + 3 }     // WT signal invalid sid
        5 => { out[at] = 0x21; out[at+1] = 1; out[at+2] = pb; at + 3 }          // GREASE
        _ => { out[at] = 0x00; out[at+1] = 0x50; out[at+2] = 0x01; at + 3 }     // DATA length 4097 (2-byte varint 0x5001)
    }
}

#[cfg(kani)]
#[kani::proof]
#[kani::unwind(8)]
fn control_stream_depth2() {
    use wtransport_proto::stream::uniremote::MaybeUpgradeH3;
    let s1: u8 = kani::any(); let s2: u8 = kani::any();
    kani::assume(s1 < 7 && s2 < 7);
    let pb: u8 = kani::any();
    let mut out = [0u8; 16];
    let p1 = put_frame(s1, &mut out, 0, pb);
    let p2 = put_frame(s2, &mut out, p1, pb);
    let mut hdr: &[u8] = &[0x00];
    let mut h3 = match Stream::accept_uni().upgrade(&mut hdr) { Ok(MaybeUpgradeH3::H3(s)) => s, _ => unreachable!() };
    let mut rd: &[u8] = &out[..p2];
    let r1 = h3.read_frame(&mut rd);
    // reference table for the proto typestate on a control stream
    let expect1: Result<(), ErrorCode> = match s1 {
        0 | 1 | 3 => Err(ErrorCode::FrameUnexpected),
        2 | 5 => Ok(()),
        4 => Err(ErrorCode::Id),
        _ => Err(ErrorCode::ExcessiveLoad),
    };
    match (&r1, expect1) {
        (Ok(Some(_)), Ok(())) => {}
        (Err(e), Err(x)) => assert!(*e == x),
        _ => assert!(false, "control stream verdict differs from table"),
    }
}

#[cfg(kani)]
#[kani::proof]
#[kani::unwind(8)]
#[kani::stub(<wtransport_proto::bytes::IoReadError as std::convert::From<std::io::Error>>::from, io_err_stub)]
fn frame_async_concrete() {
    let x: u8 = kani::any();
    let buf: [u8; 5] = [0x00, 0x02, x, 0xBB, 0xCC];
    let mut a: &[u8] = &buf[..];
    let asy = poll_once(Frame::read_async(&mut a)).unwrap();
    match asy { Ok(f) => { assert!(f.payload().len() == 2 && f.payload()[0] == x); core::mem::forget(f); } Err(_) => assert!(false) }
}

pub struct ByteReader<const N: usize> { pub data: [u8; N], pub off: usize }
impl<const N: usize> wtransport_proto::bytes::AsyncRead for ByteReader<N> {
    fn poll_read(mut self: Pin<&mut Self>, _cx: &mut Context<'_>, buf: &mut [u8]) -> Poll<std::io::Result<usize>> {
        let this = self.get_mut();
        if this.off >= N || buf.is_empty() { return Poll::Ready(Ok(0)); }
        buf[0] = this.data[this.off];
        this.off += 1;
        Poll::Ready(Ok(1))
    }
}

#[cfg(kani)]
#[kani::proof]
#[kani::unwind(8)]
#[kani::stub(<wtransport_proto::bytes::IoReadError as std::convert::From<std::io::Error>>::from, io_err_stub)]
fn frame_async_bytewise() {
    let x: u8 = kani::any();
    let t: u8 = kani::any();
    kani::assume(t < 0x40 && t != 0x41);
    let mut rd = ByteReader::<5> { data: [t, 0x02, x, 0xBB, 0xCC], off: 0 };
    let asy = poll_once(Frame::read_async(&mut rd)).unwrap();
    match asy {
        Ok(f) => { assert!(f.payload().len() == 2 && f.payload()[0] == x && rd.off == 4); core::mem::forget(f); }
        Err(frame::IoReadError::Parse(frame::ParseError::UnknownFrame)) => { assert!(rd.off == 1); }
        Err(_) => assert!(false),
    }
}

pub struct ByteReaderL<const N: usize> { pub data: [u8; N], pub len: usize, pub off: usize, pub pend_mask: u16, pub calls: u16 }
impl<const N: usize> wtransport_proto::bytes::AsyncRead for ByteReaderL<N> {
    fn poll_read(mut self: Pin<&mut Self>, _cx: &mut Context<'_>, buf: &mut [u8]) -> Poll<std::io::Result<usize>> {
        let this = self.get_mut();
        let c = this.calls; this.calls += 1;
        if c < 16 && (this.pend_mask >> c) & 1 == 1 { return Poll::Pending; }
        if this.off >= this.len || buf.is_empty() { return Poll::Ready(Ok(0)); }
        buf[0] = this.data[this.off];
        this.off += 1;
        Poll::Ready(Ok(1))
    }
}

fn drive_n<F: Future>(fut: F, max_polls: usize) -> Option<F::Output> {
    let mut fut = std::pin::pin!(fut);
    let mut cx = Context::from_waker(Waker::noop());
    let mut i = 0;
    while i < max_polls {
        if let Poll::Ready(v) = fut.as_mut().poll(&mut cx) { return Some(v); }
        i += 1;
    }
    None
}

#[cfg(kani)]
#[kani::proof]
#[kani::unwind(9)]
#[kani::stub(<wtransport_proto::bytes::IoReadError as std::convert::From<std::io::Error>>::from, io_err_stub)]
fn frame_l2_bytewise_symlen() {
    const N: usize = 6;
    let buf: [u8; N] = kani::any();
    let len: usize = kani::any();
    kani::assume(len <= N);
    kani::assume(buf[0] < 0x40);
    kani::assume(buf[0] == 0x41 || buf[1] <= 3);

    let mut s: &[u8] = &buf[..len];
    let sync = Frame::read(&mut s);
    let sync_consumed = len - s.len();

    let pend_mask: u16 = 0;
    let mut rd = ByteReaderL::<N> { data: buf, len, off: 0, pend_mask, calls: 0 };
    let asy = drive_n(Frame::read_async(&mut rd), 1);
    let asy = match asy { Some(a) => a, None => { kani::assume(false); unreachable!() } };

    match (sync, asy) {
        (Ok(Some(fs)), Ok(fa)) => {
            assert!(fs.payload().len() == fa.payload().len());
            let mut i = 0; while i < fs.payload().len() { assert!(fs.payload()[i] == fa.payload()[i]); i += 1; }
            assert!(sync_consumed == rd.off);
            core::mem::forget(fa);
        }
        (Ok(None), Err(frame::IoReadError::IO(wbytes::IoReadError::ImmediateFin))) => { assert!(len == 0); }
        (Ok(None), Err(frame::IoReadError::IO(wbytes::IoReadError::UnexpectedFin))) => { assert!(len > 0 && rd.off == len); }
        (Err(frame::ParseError::UnknownFrame), Err(frame::IoReadError::Parse(frame::ParseError::UnknownFrame))) => { assert!(sync_consumed == rd.off); }
        (Err(frame::ParseError::InvalidSessionId), Err(frame::IoReadError::Parse(frame::ParseError::InvalidSessionId))) => {}
        (Err(frame::ParseError::PayloadTooBig), Err(frame::IoReadError::Parse(frame::ParseError::PayloadTooBig))) => {}
        _ => { assert!(false, "sync/async disagree"); }
    }
}
