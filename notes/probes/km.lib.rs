#![allow(unused, missing_docs)]
// mirror of wtransport-proto: real files, HashMap import substituted, huffman dependency = model
#[path = "../proto_src/bytes.rs"] pub mod bytes;
#[path = "../proto_src/capsule/mod.rs"] pub mod capsule;
#[path = "../proto_src/datagram.rs"] pub mod datagram;
#[path = "../proto_src/error.rs"] pub mod error;
#[path = "../proto_src/frame.rs"] pub mod frame;
#[path = "../proto_src/headers.rs"] pub mod headers;
#[path = "../proto_src/ids.rs"] pub mod ids;
#[path = "../proto_src/qpack.rs"] pub mod qpack;
#[path = "../proto_src/session.rs"] pub mod session;
#[path = "../proto_src/settings.rs"] pub mod settings;
#[path = "../proto_src/stream.rs"] pub mod stream;
#[path = "../proto_src/stream_header.rs"] pub mod stream_header;
#[path = "../proto_src/varint.rs"] pub mod varint;

pub mod model_map {
    //! fixed-capacity association-list model of std::collections::HashMap (API subset used by the crate)
    use std::borrow::Borrow;
    pub const CAP: usize = 4;
    #[derive(Clone, Debug)]
    pub struct HashMap<K, V> { items: [Option<(K, V)>; CAP], n: usize }
    impl<K: Eq, V> HashMap<K, V> {
        pub fn new() -> Self { Self { items: [const { None }; CAP], n: 0 } }
        pub fn len(&self) -> usize { self.n }
        fn pos<Q: ?Sized + Eq>(&self, k: &Q) -> Option<usize> where K: Borrow<Q> {
            let mut i = 0;
            while i < CAP { if i < self.n { if let Some((kk, _)) = &self.items[i] { if kk.borrow() == k { return Some(i); } } } i += 1; }
            None
        }
        pub fn get<Q: ?Sized + Eq>(&self, k: &Q) -> Option<&V> where K: Borrow<Q> {
            match self.pos(k) { Some(i) => self.items[i].as_ref().map(|kv| &kv.1), None => None }
        }
        fn push(&mut self, k: K, v: V) -> usize {
            #[cfg(kani)] kani::assume(self.n < CAP); // bound of the model: at most CAP distinct keys
            let i = self.n; self.items[i] = Some((k, v)); self.n += 1; i
        }
        pub fn insert(&mut self, k: K, v: V) -> Option<V> {
            match self.pos(&k) {
                Some(i) => { let old = self.items[i].take().map(|kv| kv.1); self.items[i] = Some((k, v)); old }
                None => { self.push(k, v); None }
            }
        }
        pub fn iter(&self) -> Iter<'_, K, V> { Iter { map: self, i: 0 } }
        pub fn entry(&mut self, k: K) -> hash_map::Entry<'_, K, V> {
            match self.pos(&k) {
                Some(i) => hash_map::Entry::Occupied(hash_map::OccupiedEntry { map: self, idx: i }),
                None => hash_map::Entry::Vacant(hash_map::VacantEntry { map: self, key: k }),
            }
        }
    }
    pub struct Iter<'a, K, V> { map: &'a HashMap<K, V>, i: usize }
    impl<'a, K, V> Iterator for Iter<'a, K, V> {
        type Item = (&'a K, &'a V);
        fn next(&mut self) -> Option<Self::Item> {
            if self.i < self.map.n { let r = self.map.items[self.i].as_ref().map(|kv| (&kv.0, &kv.1)); self.i += 1; r } else { None }
        }
    }
    impl<'a, K: Eq, V> IntoIterator for &'a HashMap<K, V> {
        type Item = (&'a K, &'a V); type IntoIter = Iter<'a, K, V>;
        fn into_iter(self) -> Self::IntoIter { self.iter() }
    }
    impl<K: Eq, V> FromIterator<(K, V)> for HashMap<K, V> {
        fn from_iter<T: IntoIterator<Item = (K, V)>>(iter: T) -> Self {
            let mut m = Self::new(); for (k, v) in iter { m.insert(k, v); } m
        }
    }
    impl<K: Eq, V: PartialEq> PartialEq for HashMap<K, V> {
        fn eq(&self, o: &Self) -> bool {
            if self.len() != o.len() { return false; }
            let mut i = 0;
            while i < CAP { if i < self.n { if let Some((k, v)) = &self.items[i] { if o.get(k) != Some(v) { return false; } } } i += 1; }
            true
        }
    }
    pub mod hash_map {
        use super::HashMap;
        pub enum Entry<'a, K, V> { Occupied(OccupiedEntry<'a, K, V>), Vacant(VacantEntry<'a, K, V>) }
        pub struct OccupiedEntry<'a, K, V> { pub(super) map: &'a mut HashMap<K, V>, pub(super) idx: usize }
        pub struct VacantEntry<'a, K, V> { pub(super) map: &'a mut HashMap<K, V>, pub(super) key: K }
        impl<'a, K: Eq, V> VacantEntry<'a, K, V> {
            pub fn insert(self, v: V) -> &'a mut V { let i = self.map.push(self.key, v); &mut self.map.items[i].as_mut().unwrap().1 }
        }
    }
}

use std::borrow::Cow;
use frame::Frame;
use settings::{Settings, SettingId};
use error::ErrorCode;

#[cfg(kani)]
#[kani::proof]
#[kani::unwind(10)]
fn settings_with_frame_total() {
    const N: usize = 6;
    let buf: [u8; N] = kani::any();
    let len: usize = kani::any();
    kani::assume(len <= N);
    let f = Frame::new_settings(Cow::Borrowed(&buf[..len]));
    let r = Settings::with_frame(&f);
    match &r {
        Ok(s) => {
            // two 1-byte varints (id 0x33, value v) alone: H3_DATAGRAM setting present with that value
            if len == 2 && buf[0] == 0x33 && buf[1] < 0x40 {
                assert!(s.get(SettingId::H3Datagram).map(|v| v.into_inner()) == Some(buf[1] as u64));
            }
            // reserved ids never accepted
            if len == 2 && buf[1] < 0x40 { assert!(!(buf[0] == 0 || (buf[0] >= 2 && buf[0] <= 5))); }
        }
        Err(e) => { assert!(*e == ErrorCode::Frame || *e == ErrorCode::Settings); }
    }
    core::mem::forget(r);
}

#[cfg(kani)]
#[kani::proof]
#[kani::unwind(12)]
fn qpack_decode_total() {
    const N: usize = 6;
    let buf: [u8; N] = kani::any();
    let len: usize = kani::any();
    kani::assume(len <= N);
    let r = qpack::Decoder::decode(&buf[..len]);
    core::mem::forget(r);
}

#[cfg(kani)]
#[kani::proof]
#[kani::unwind(10)]
fn qpack_decode_litlit() {
    const N: usize = 7;
    let buf: [u8; N] = kani::any();
    let len: usize = kani::any();
    kani::assume(len <= N);
    kani::assume(buf[0] != 0xff && (buf[1] & 0x7f) != 0x7f);
    kani::assume(buf[2] >> 5 == 1);          // literal field line with literal name
    let r = qpack::Decoder::decode(&buf[..len]);
    if let Ok(m) = &r {
        // at most one complete line fits; if the single line is non-huffman with name len 1 / value len 1, it decodes to exactly that pair
        if len == 6 && buf[2] == 0b0010_0001 && buf[4] == 0x01 && buf[3] < 0x80 && buf[5] < 0x80 {
            assert!(m.len() == 1);
        }
    }
    core::mem::forget(r);
}

fn simple_utf8_validation(v: &[u8]) -> Result<(), core::str::Utf8Error> {
    let n = v.len();
    let mut i = 0;
    let mut bad = false;
    while i < n {
        let b = v[i];
        if b < 0x80 { i += 1; continue; }
        let (need, lo, hi): (usize, u8, u8) = if b >= 0xC2 && b <= 0xDF { (1, 0x80, 0xBF) }
            else if b == 0xE0 { (2, 0xA0, 0xBF) }
            else if (b >= 0xE1 && b <= 0xEC) || b == 0xEE || b == 0xEF { (2, 0x80, 0xBF) }
            else if b == 0xED { (2, 0x80, 0x9F) }
            else if b == 0xF0 { (3, 0x90, 0xBF) }
            else if b >= 0xF1 && b <= 0xF3 { (3, 0x80, 0xBF) }
            else if b == 0xF4 { (3, 0x80, 0x8F) }
            else { bad = true; break; };
        if i + need >= n { bad = true; break; }
        if v[i + 1] < lo || v[i + 1] > hi { bad = true; break; }
        let mut k = 2;
        while k <= need { if v[i + k] < 0x80 || v[i + k] > 0xBF { bad = true; break; } k += 1; }
        if bad { break; }
        i += need + 1;
    }
    if bad { Err(unsafe { core::mem::transmute::<(usize, Option<u8>), core::str::Utf8Error>((0usize, Some(1u8))) }) } else { Ok(()) }
}

#[cfg(kani)]
#[kani::proof]
#[kani::unwind(5)]
#[kani::stub(core::str::validations::run_utf8_validation, simple_utf8_validation)]
fn qpack_decode_litlit_small() {
    const N: usize = 6;
    let buf: [u8; N] = kani::any();
    let len: usize = kani::any();
    kani::assume(len <= N);
    kani::assume(buf[0] != 0xff && (buf[1] & 0x7f) != 0x7f);
    kani::assume(buf[2] >> 5 == 1);
    let r = qpack::Decoder::decode(&buf[..len]);
    if let Ok(m) = &r {
        if len == 6 && buf[2] == 0b0010_0001 && buf[4] == 0x01 && buf[3] < 0x80 && buf[5] < 0x80 {
            assert!(m.len() == 1);
        }
    }
    core::mem::forget(r);
}

#[cfg(kani)]
fn pick(sel: u8, exact: &'static str) -> Option<&'static str> {
    match sel { 0 => None, 1 => Some(exact), _ => Some("x") }
}

#[cfg(kani)]
#[kani::proof]
#[kani::unwind(13)]
fn session_request_admission() {
    use headers::Headers;
    use session::{SessionRequest, HeadersParseError};
    let s: [u8; 5] = kani::any();
    let mut i = 0; while i < 5 { kani::assume(s[i] < 3); i += 1; }
    let names = [":method", ":scheme", ":protocol", ":authority", ":path"];
    let exact = ["CONNECT", "https", "webtransport", "a", "/"];
    let mut h: Headers = core::iter::empty::<(&str, &str)>().collect();
    let mut k = 0;
    while k < 5 { if let Some(v) = pick(s[k], exact[k]) { h.insert(names[k], v); } k += 1; }
    let r = SessionRequest::try_from(h);
    let admit = s[0] == 1 && s[1] == 1 && s[2] == 1 && s[3] != 0 && s[4] != 0;
    assert!(r.is_ok() == admit);
    match &r {
        Err(HeadersParseError::MissingMethod) => assert!(s[0] == 0),
        Err(HeadersParseError::MethodNotConnect) => assert!(s[0] == 2),
        Err(HeadersParseError::MissingScheme) => assert!(s[0] == 1 && s[1] == 0),
        _ => {}
    }
    core::mem::forget(r);
}


#[cfg(kani)]
#[kani::proof]
#[kani::unwind(14)]
fn session_request_admission_b() {
    use headers::Headers;
    use session::{SessionRequest, HeadersParseError};
    let s: [u8; 5] = kani::any();
    let mut i = 0; while i < 5 { kani::assume(s[i] < 3); i += 1; }
    // keep within the model map capacity explicitly: at most 4 present
    let present = (s[0] != 0) as u8 + (s[1] != 0) as u8 + (s[2] != 0) as u8 + (s[3] != 0) as u8 + (s[4] != 0) as u8;
    kani::assume(present <= 4);
    let names = [":method", ":scheme", ":protocol", ":authority", ":path"];
    let exact = ["CONNECT", "https", "webtransport", "a", "/"];
    let mut h: Headers = core::iter::empty::<(&str, &str)>().collect();
    let mut k = 0;
    while k < 5 { if let Some(v) = pick(s[k], exact[k]) { h.insert(names[k], v); } k += 1; }
    let r = SessionRequest::try_from(h);
    let code: u8 = match &r {
        Ok(_) => 0,
        Err(HeadersParseError::MissingMethod) => 1,
        Err(HeadersParseError::MethodNotConnect) => 2,
        Err(HeadersParseError::MissingScheme) => 3,
        Err(HeadersParseError::SchemeNotHttps) => 4,
        Err(HeadersParseError::MissingProtocol) => 5,
        Err(HeadersParseError::ProtocolNotWebTransport) => 6,
        Err(HeadersParseError::MissingAuthority) => 7,
        Err(HeadersParseError::MissingPath) => 8,
        Err(_) => 9,
    };
    core::mem::forget(r);
    let expect: u8 = if s[0] == 0 { 1 } else if s[0] == 2 { 2 } else if s[1] == 0 { 3 } else if s[1] == 2 { 4 }
        else if s[2] == 0 { 5 } else if s[2] == 2 { 6 } else if s[3] == 0 { 7 } else if s[4] == 0 { 8 } else { 0 };
    assert!(code == expect);
}

#[cfg(kani)]
#[kani::proof]
#[kani::unwind(14)]
fn session_request_admission_c() {
    use headers::Headers;
    use session::{SessionRequest, HeadersParseError};
    let s: [u8; 5] = [1, 2, 0, 1, 2];
    let names = [":method", ":scheme", ":protocol", ":authority", ":path"];
    let exact = ["CONNECT", "https", "webtransport", "a", "/"];
    let mut h: Headers = core::iter::empty::<(&str, &str)>().collect();
    let mut k = 0;
    while k < 5 { if let Some(v) = pick(s[k], exact[k]) { h.insert(names[k], v); } k += 1; }
    assert!(h.get(":method") == Some("CONNECT"));
    assert!(h.get(":scheme") == Some("x"));
    assert!(h.get(":protocol").is_none());
    assert!(h.get(":path") == Some("x"));
    let r = SessionRequest::try_from(h);
    let code: u8 = match &r {
        Ok(_) => 0,
        Err(HeadersParseError::MissingMethod) => 1,
        Err(HeadersParseError::MethodNotConnect) => 2,
        Err(HeadersParseError::MissingScheme) => 3,
        Err(HeadersParseError::SchemeNotHttps) => 4,
        Err(HeadersParseError::MissingProtocol) => 5,
        Err(HeadersParseError::ProtocolNotWebTransport) => 6,
        Err(HeadersParseError::MissingAuthority) => 7,
        Err(HeadersParseError::MissingPath) => 8,
        Err(_) => 9,
    };
    core::mem::forget(r);
    kani::cover!(code == 0); kani::cover!(code == 1); kani::cover!(code == 2); kani::cover!(code == 3); kani::cover!(code == 4);
    kani::cover!(code == 5); kani::cover!(code == 6); kani::cover!(code == 7); kani::cover!(code == 8); kani::cover!(code == 9);
    assert!(code == 4);
}

#[cfg(kani)]
#[kani::proof]
#[kani::unwind(14)]
fn session_request_admission_d() {
    use headers::Headers;
    use session::{SessionRequest, HeadersParseError};
    let s: [u8; 5] = kani::any();
    let mut i = 0; while i < 5 { kani::assume(s[i] < 3); i += 1; }
    // keep within the model map capacity explicitly: at most 4 present
    let present = (s[0] != 0) as u8 + (s[1] != 0) as u8 + (s[2] != 0) as u8 + (s[3] != 0) as u8 + (s[4] != 0) as u8;
    kani::assume(present <= 4);
    let names = [":method", ":scheme", ":protocol", ":authority", ":path"];
    let exact = ["CONNECT", "https", "webtransport", "a", "/"];
    let mut h: Headers = core::iter::empty::<(&str, &str)>().collect();
    let mut k = 0;
    while k < 5 { if let Some(v) = pick(s[k], exact[k]) { h.insert(names[k], v); } k += 1; }
    let r = SessionRequest::try_from(h);
    let code: u8 = match &r {
        Ok(_) => 0,
        Err(HeadersParseError::MissingMethod) => 1,
        Err(HeadersParseError::MethodNotConnect) => 2,
        Err(HeadersParseError::MissingScheme) => 3,
        Err(HeadersParseError::SchemeNotHttps) => 4,
        Err(HeadersParseError::MissingProtocol) => 5,
        Err(HeadersParseError::ProtocolNotWebTransport) => 6,
        Err(HeadersParseError::MissingAuthority) => 7,
        Err(HeadersParseError::MissingPath) => 8,
        Err(_) => 9,
    };
    core::mem::forget(r);
    let expect: u8 = if s[0] == 0 { 1 } else if s[0] == 2 { 2 } else if s[1] == 0 { 3 } else if s[1] == 2 { 4 }
        else if s[2] == 0 { 5 } else if s[2] == 2 { 6 } else if s[3] == 0 { 7 } else if s[4] == 0 { 8 } else { 0 };
    if expect == 0 { assert!(code == 0); }
    if expect == 1 { assert!(code == 1); }
    if expect == 2 { assert!(code == 2); }
    if expect == 3 { assert!(code == 3); }
    if expect == 4 { assert!(code == 4); }
    if expect == 5 { assert!(code == 5); }
    if expect == 6 { assert!(code == 6); }
    if expect == 7 { assert!(code == 7); }
    if expect == 8 { assert!(code == 8); }
    kani::cover!(code == 9);
}


#[cfg(kani)]
#[kani::proof]
#[kani::unwind(14)]
fn session_request_admission_e() {
    use headers::Headers;
    use session::{SessionRequest, HeadersParseError};
    let s: [u8; 5] = kani::any();
    let mut i = 0; while i < 5 { kani::assume(s[i] < 3); i += 1; }
    // keep within the model map capacity explicitly: at most 4 present
    let present = (s[0] != 0) as u8 + (s[1] != 0) as u8 + (s[2] != 0) as u8 + (s[3] != 0) as u8 + (s[4] != 0) as u8;
    kani::assume(present <= 4);
    let names = [":method", ":scheme", ":protocol", ":authority", ":path"];
    let exact = ["CONNECT", "https", "webtransport", "a", "/"];
    let mut h: Headers = core::iter::empty::<(&str, &str)>().collect();
    let mut k = 0;
    while k < 5 { if s[k] == 1 { h.insert(names[k], exact[k]); } else if s[k] == 2 { h.insert(names[k], "x"); } k += 1; }
    let r = SessionRequest::try_from(h);
    let code: u8 = match &r {
        Ok(_) => 0,
        Err(HeadersParseError::MissingMethod) => 1,
        Err(HeadersParseError::MethodNotConnect) => 2,
        Err(HeadersParseError::MissingScheme) => 3,
        Err(HeadersParseError::SchemeNotHttps) => 4,
        Err(HeadersParseError::MissingProtocol) => 5,
        Err(HeadersParseError::ProtocolNotWebTransport) => 6,
        Err(HeadersParseError::MissingAuthority) => 7,
        Err(HeadersParseError::MissingPath) => 8,
        Err(_) => 9,
    };
    core::mem::forget(r);
    let expect: u8 = if s[0] == 0 { 1 } else if s[0] == 2 { 2 } else if s[1] == 0 { 3 } else if s[1] == 2 { 4 }
        else if s[2] == 0 { 5 } else if s[2] == 2 { 6 } else if s[3] == 0 { 7 } else if s[4] == 0 { 8 } else { 0 };
    if expect == 0 { assert!(code == 0); }
    if expect == 1 { assert!(code == 1); }
    if expect == 2 { assert!(code == 2); }
    if expect == 3 { assert!(code == 3); }
    if expect == 4 { assert!(code == 4); }
    if expect == 5 { assert!(code == 5); }
    if expect == 6 { assert!(code == 6); }
    if expect == 7 { assert!(code == 7); }
    if expect == 8 { assert!(code == 8); }
    kani::cover!(code == 9);
}

