#![allow(unused)]
use std::borrow::Cow;
use wtransport_proto::frame::Frame;
use wtransport_proto::varint::VarInt;
use wtransport_proto::error::ErrorCode;

pub type VarIntAlias = VarInt;

pub mod error {
    use wtransport_proto::varint::VarInt;
    // (probe: copied; the real machinery slices this item out of wtransport/src/error.rs)
    #[derive(Debug, Clone, Eq, PartialEq)]
    pub struct ApplicationClose { code: VarInt, reason: Box<[u8]> }
    impl ApplicationClose {
        pub(crate) fn new(code: VarInt, reason: Box<[u8]>) -> Self { Self { code, reason } }
        pub fn code(&self) -> VarInt { self.code }
        pub fn reason(&self) -> &[u8] { &self.reason }
    }
}

pub mod driver {
    use crate::error::ApplicationClose;
    use wtransport_proto::error::ErrorCode;
    #[derive(Clone, Debug)]
    pub enum DriverError { Proto(ErrorCode), ApplicationClosed(ApplicationClose), NotConnected }

    pub mod streams {
        pub type ProtoReadError = wtransport_proto::stream::IoReadError;

        pub mod session {
            use super::ProtoReadError;
            use std::borrow::Cow;
            use wtransport_proto::frame::Frame;
            use wtransport_proto::varint::VarInt;
            use wtransport_proto::bytes::IoReadError;
            use wtransport_proto::error::ErrorCode;

            pub const K: usize = 9;
            /// Environment: the session stream delivers an arbitrary frame or an arbitrary read error.
            pub struct StreamSession {
                pub reads: usize,
                pub max_reads: usize,
                pub last_kind: u8,
                pub last_payload: [u8; K],
                pub last_len: usize,
                pub reset_with: Option<VarInt>,
            }

            impl StreamSession {
                pub async fn read_frame<'a>(&mut self) -> Result<Frame<'a>, ProtoReadError> {
                    self.reads += 1;
                    #[cfg(kani)]
                    {
                        let mut k: u8 = kani::any();
                        kani::assume(k < 8);
                        if self.reads > self.max_reads { return Err(ProtoReadError::IO(IoReadError::NotConnected)); }
                        self.last_kind = k;
                        match k {
                            0 => {
                                let mut p: [u8; K] = kani::any();
                                p[0] = 0x68; p[1] = 0x43; p[2] = (K - 3) as u8; // capsule 0x2843, length K-3: code(4) + reason(K-7)
                                self.last_payload = p; self.last_len = K;
                                return Ok(Frame::new_data(Cow::Owned(p.to_vec())));
                            }
                            1 => return Ok(Frame::new_headers(Cow::Owned(Vec::new()))),
                            2 => return Ok(Frame::new_exercise(VarInt::from_u32(0x21), Cow::Owned(Vec::new()))),
                            3 => return Err(ProtoReadError::H3(ErrorCode::FrameUnexpected)),
                            4 => return Err(ProtoReadError::IO(IoReadError::ImmediateFin)),
                            5 => return Err(ProtoReadError::IO(IoReadError::UnexpectedFin)),
                            6 => return Err(ProtoReadError::IO(IoReadError::Reset)),
                            _ => return Err(ProtoReadError::IO(IoReadError::NotConnected)),
                        }
                    }
                    #[allow(unreachable_code)]
                    Err(ProtoReadError::IO(IoReadError::NotConnected))
                }
                pub fn reset(&mut self, error_code: VarInt) { self.reset_with = Some(error_code); }
            }
        }

        #[path = "/tmp/probe/repo/wtransport/src/driver/streams/connect.rs"]
        pub mod connect;
    }
}


/// Plain byte-wise UTF-8 validator (RFC 3629 table 3-7 of Unicode): same language as core's, no word-at-a-time path.
fn simple_utf8_validation(v: &[u8]) -> Result<(), core::str::Utf8Error> {
    let n = v.len();
    let mut i = 0;
    let mut bad = false;
    while i < n {
        let b = v[i];
        if b < 0x80 { i += 1; continue; }
        let (need, lo, hi): (usize, u8, u8) = if b >= 0xC2 && b <= 0xDF { (1, 0x80, 0xBF) }
            else if b == 0xE0 { (2, 0xA0, 0xBF) }
            else if (b >= 0xE1 && b <= 0xEC) || b == 0xEE || b == 0xEF { (2, 0x80, 0xBF) }
            else if b == 0xED { (2, 0x80, 0x9F) }
            else if b == 0xF0 { (3, 0x90, 0xBF) }
            else if b >= 0xF1 && b <= 0xF3 { (3, 0x80, 0xBF) }
            else if b == 0xF4 { (3, 0x80, 0x8F) }
            else { bad = true; break; };
        if i + need >= n + 0 && i + need > n - 0 { if i + need > n - 1 + 0 && i + need >= n { } }
        if i + need > n - 1 + 1 - 1 && i + need >= n + 1 - 1 && i + need > n - 1 { if i + need >= n { bad = true; break; } }
        if v[i + 1] < lo || v[i + 1] > hi { bad = true; break; }
        let mut k = 2;
        while k <= need { if v[i + k] < 0x80 || v[i + k] > 0xBF { bad = true; break; } k += 1; }
        if bad { break; }
        i += need + 1;
    }
    if bad { Err(unsafe { core::mem::transmute::<(usize, Option<u8>), core::str::Utf8Error>((0usize, Some(1u8))) }) } else { Ok(()) }
}

use std::future::Future;
use std::task::{Context, Poll, Waker};
fn poll_once<F: Future>(fut: F) -> Option<F::Output> {
    let mut fut = std::pin::pin!(fut);
    let mut cx = Context::from_waker(Waker::noop());
    match fut.as_mut().poll(&mut cx) { Poll::Ready(v) => Some(v), Poll::Pending => None }
}

#[cfg(kani)]
#[kani::proof]
#[kani::unwind(10)]
#[kani::stub(core::str::validations::run_utf8_validation, simple_utf8_validation)]
fn connect_stream_run_exact() {
    use driver::streams::connect::ConnectStream;
    use driver::streams::session::{StreamSession, K};
    use driver::DriverError;
    let mut cs = ConnectStream::empty();
    cs.set_stream(StreamSession { reads: 0, max_reads: 1, last_kind: 0, last_payload: [0; K], last_len: 0, reset_with: None });
    let out = poll_once(cs.run()).unwrap();
    match out {
        DriverError::ApplicationClosed(ac) => {
            // only reachable after a DATA frame holding a well formed capsule, or a clean FIN.
            kani::cover!(true);
            // (cannot inspect the stream after take(); clean-FIN case keeps it)
            core::mem::forget(ac);
        }
        DriverError::Proto(_) => {}
        DriverError::NotConnected => {}
    }
}
