#[macro_export]
macro_rules! debug { ($($t:tt)*) => { { } }; }
#[macro_export]
macro_rules! trace { ($($t:tt)*) => { { } }; }
