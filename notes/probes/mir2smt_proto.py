#!/usr/bin/env python3
"""Design-phase prototype (NOT the framework): translate loop-free integer MIR functions to SMT-LIB2.

usage: mir2smt_proto.py <mir dump> — runs a few built-in queries through cvc5 (int-blasting) and z3.
Subset: ints/bools/tuples/1-field newtypes; copy/move/const; BinOp/UnOp/casts; *WithOverflow+assert;
switchInt/goto/return/panic; calls to other functions of the dump (inlined).
"""
import re, subprocess, sys

BITS = {'u8': 8, 'u16': 16, 'u32': 32, 'u64': 64, 'usize': 64, 'i8': 8, 'i16': 16, 'i32': 32, 'i64': 64, 'isize': 64}


def bv(val, bits):
    return '(_ bv%d %d)' % (val % (1 << bits), bits)


class Fn:
    def __init__(self, name, args, ret, locals_, blocks):
        self.name, self.args, self.ret, self.locals, self.blocks = name, args, ret, locals_, blocks


def parse(path):
    fns = {}
    txt = open(path).read()
    for m in re.finditer(r'^fn (.+?)\((.*?)\) -> (.+?) \{\n(.*?)^\}', txt, re.S | re.M):
        name, args, ret, body = m.group(1), m.group(2), m.group(3), m.group(4)
        if name in fns:  # second copy is "MIR FOR CTFE"
            continue
        a = [(x.split(':')[0].strip(), x.split(':', 1)[1].strip()) for x in re.split(r',\s*(?=_\d+:)', args) if x.strip()]
        locs = dict(a)
        for lm in re.finditer(r'let (?:mut )?(_\d+): (.+?);', body):
            locs[lm.group(1)] = lm.group(2)
        blocks = {}
        for bm in re.finditer(r'^    (bb\d+)(?: \(cleanup\))?: \{\n(.*?)^    \}', body, re.S | re.M):
            blocks[bm.group(1)] = [l.strip() for l in bm.group(2).strip().split('\n') if l.strip()]
        fns[name] = Fn(name, a, ret, locs, blocks)
    return fns


class Panic(Exception):
    pass


class Tr:
    """Symbolic executor: explores the acyclic CFG, returns (list of (path_cond, value)), list of panic conds."""

    def __init__(self, fns, wrap=False):
        self.fns, self.wrap = fns, wrap

    def width(self, ty):
        ty = ty.strip()
        if ty in BITS:
            return BITS[ty]
        if ty.endswith('VarInt') or ty.endswith('StreamId') or ty.endswith('SessionId') or ty.endswith('QStreamId'):
            return 64
        raise NotImplementedError('type ' + ty)

    def operand(self, env, s, fn):
        s = s.strip()
        m = re.match(r'const (-?\d+)_(\w+)$', s)
        if m:
            return bv(int(m.group(1)), BITS[m.group(2)])
        if s in ('const true', 'const false'):
            return s.split()[1]
        s = re.sub(r'^(copy|move) ', '', s)
        m = re.match(r'\((.+)\.(\d+): .+\)$', s)
        if m:
            base = self.operand(env, m.group(1), fn)
            return base[int(m.group(2))] if isinstance(base, tuple) else base  # 1-field newtype = its field
        if re.match(r'_\d+$', s):
            return env[s]
        raise NotImplementedError('operand ' + s)

    def find(self, callee):
        callee = callee.strip()
        cands = [n for n in self.fns if n.endswith('::' + callee.split('::')[-1]) and callee.split('::')[-2] in n.replace('frame::<impl', 'frame::FrameKind::<impl')] if '::' in callee else []
        # resolve `varint::VarInt::into_inner` against `varint::<impl at ...>::into_inner`
        last = callee.split('::')[-1]
        mod = callee.split('::')[0]
        cands = [n for n in self.fns if n.endswith('>::' + last) and n.startswith(mod + '::')]
        if len(cands) == 1:
            return self.fns[cands[0]]
        raise NotImplementedError('callee %s -> %s' % (callee, cands))

    def run(self, fn, argvals):
        env = {a[0]: v for a, v in zip(fn.args, argvals)}
        self.results, self.panics = [], []
        self._go(fn, 'bb0', env, [])
        return self.results, self.panics

    def _go(self, fn, bb, env, pc):
        env = dict(env)
        for line in fn.blocks[bb]:
            line = line.rstrip(';')
            if line.startswith(('StorageLive', 'StorageDead', 'nop', 'debug', 'FakeRead', 'PlaceMention')):
                continue
            m = re.match(r'switchInt\((.+)\) -> \[(.+)\]$', line)
            if m:
                d = self.operand(env, m.group(1), fn)
                arms = [a.strip() for a in m.group(2).split(',')]
                taken = []
                for a in arms:
                    k, t = [x.strip() for x in a.split(':')]
                    if k == 'otherwise':
                        cond = '(not (or false %s))' % ' '.join(taken)
                    else:
                        cond = ('(= %s %s)' % (d, bv(int(k), 64 if d.startswith('(_ bv') and d.endswith(' 64)') else self._w(d)))) if d not in ('true', 'false') and not self._isbool(d) else (('(not %s)' % d) if k == '0' else d)
                        taken.append(cond)
                    self._go(fn, t, env, pc + [cond])
                return
            m = re.match(r'goto -> (bb\d+)$', line)
            if m:
                return self._go(fn, m.group(1), env, pc)
            if line == 'return':
                self.results.append((pc, env.get('_0')))
                return
            m = re.match(r'assert\((!?)(.+?), ".*\) -> \[success: (bb\d+), unwind.*\]$', line)
            if m:
                c = self.operand(env, m.group(2), fn)
                ok = ('(not %s)' % c) if m.group(1) else c
                if not self.wrap:
                    self.panics.append(pc + ['(not %s)' % ok])
                    return self._go(fn, m.group(3), env, pc + [ok])
                return self._go(fn, m.group(3), env, pc)
            if re.match(r'(_\d+ = )?(core::panicking::)?panic', line) or line.startswith('unreachable'):
                self.panics.append(pc)
                return
            m = re.match(r'(_\d+) = (.+?)\((.*)\) -> \[return: (bb\d+), unwind.*\]$', line)
            if m and '::' in m.group(2):
                callee = self.find(m.group(2))
                args = [self.operand(env, a, fn) for a in re.split(r',\s*', m.group(3)) if a.strip()]
                sub = Tr(self.fns, self.wrap)
                res, pan = sub.run(callee, args)
                for p in pan:
                    self.panics.append(pc + p)
                val = None
                for p, v in reversed(res):
                    val = v if val is None else self._ite('(and true %s)' % ' '.join(p), v, val)
                env[m.group(1)] = val
                return self._go(fn, m.group(4), env, pc)
            m = re.match(r'(_\d+) = (.+)$', line)
            if m:
                env[m.group(1)] = self.rvalue(env, m.group(2), fn, fn.locals.get(m.group(1)))
                continue
            raise NotImplementedError('stmt ' + line)

    def _isbool(self, t):
        return isinstance(t, str) and not t.startswith('(_ bv') and (t in ('true', 'false') or t.startswith(('(bv', '(not', '(and', '(or', '(=')) and not t.startswith(('(bvadd', '(bvsub', '(bvmul', '(bvurem', '(bvudiv', '(bvand', '(bvor', '(bvxor', '(bvshl', '(bvlshr')))

    def _w(self, t):
        m = re.match(r'\(_ bv\d+ (\d+)\)$', t)
        return int(m.group(1)) if m else 64

    def _ite(self, c, a, b):
        if isinstance(a, tuple):
            return tuple(self._ite(c, x, y) for x, y in zip(a, b))
        return '(ite %s %s %s)' % (c, a, b)

    def rvalue(self, env, r, fn, ty):
        cmp_ = {'Eq': '=', 'Lt': 'bvult', 'Le': 'bvule', 'Gt': 'bvugt', 'Ge': 'bvuge'}
        ar = {'Add': 'bvadd', 'Sub': 'bvsub', 'Mul': 'bvmul', 'BitAnd': 'bvand', 'BitOr': 'bvor', 'BitXor': 'bvxor', 'Rem': 'bvurem', 'Div': 'bvudiv', 'Shl': 'bvshl', 'Shr': 'bvlshr'}
        m = re.match(r'(\w+)\((.+), (.+)\)$', r)
        if m and m.group(1) in cmp_:
            return '(%s %s %s)' % (cmp_[m.group(1)], self.operand(env, m.group(2), fn), self.operand(env, m.group(3), fn))
        if m and m.group(1) == 'Ne':
            return '(not (= %s %s))' % (self.operand(env, m.group(2), fn), self.operand(env, m.group(3), fn))
        if m and m.group(1) in ar:
            return '(%s %s %s)' % (ar[m.group(1)], self.operand(env, m.group(2), fn), self.operand(env, m.group(3), fn))
        if m and m.group(1) in ('AddWithOverflow', 'SubWithOverflow'):
            a, b = self.operand(env, m.group(2), fn), self.operand(env, m.group(3), fn)
            if m.group(1) == 'SubWithOverflow':
                return ('(bvsub %s %s)' % (a, b), '(bvult %s %s)' % (a, b))
            return ('(bvadd %s %s)' % (a, b), '(bvult (bvadd %s %s) %s)' % (a, b, a))
        m = re.match(r'Not\((.+)\)$', r)
        if m:
            return '(not %s)' % self.operand(env, m.group(1), fn)
        m = re.match(r'(.+) as (\w+) \(IntToInt\)$', r)
        if m:
            v, to = self.operand(env, m.group(1), fn), BITS[m.group(2)]
            if self._isbool(v):
                return '(ite %s %s %s)' % (v, bv(1, to), bv(0, to))
            return v  # same-width casts only in this prototype
        return self.operand(env, r, fn)


def ask(smt, solver):
    r = subprocess.run(solver, input=smt, capture_output=True, text=True, timeout=120)
    return (r.stdout + r.stderr).strip()


def main():
    fns = parse(sys.argv[1])
    ex = next(f for n, f in fns.items() if n.startswith('frame::') and n.endswith('>::is_id_exercise'))
    size = next(f for n, f in fns.items() if n.startswith('varint::') and n.endswith('>::size'))
    # Q1: for all n: is_id_exercise(31 n + 33) and not is_id_exercise(31 n + 33 + r), 1 <= r <= 30, no panic (dev semantics)
    def val(fn, arg):
        t = Tr(fns)
        res, pan = t.run(fn, [arg])
        v = None
        for p, x in reversed(res):
            v = x if v is None else '(ite (and true %s) %s %s)' % (' '.join(p), x, v)
        panic = '(or false %s)' % ' '.join('(and true %s)' % ' '.join(p) for p in pan)
        return v, panic
    a1 = '(bvadd (bvmul #x000000000000001f n) #x0000000000000021)'
    a2 = '(bvadd %s r)' % a1
    v1, p1 = val(ex, a1)
    v2, p2 = val(ex, a2)
    q1 = '''(set-logic ALL)
(declare-const n (_ BitVec 64)) (declare-const r (_ BitVec 64))
(assert (bvule n (bvudiv (bvsub #x3fffffffffffffff #x0000000000000021) #x000000000000001f)))
(assert (bvuge r #x0000000000000001)) (assert (bvule r #x000000000000001e))
(assert (bvule %s #x3fffffffffffffff))
(assert (or (not %s) %s %s %s))
(check-sat)
''' % (a2, v1, v2, p1, p2)
    print('Q1 grease (expect unsat): cvc5 ->', ask(q1, ['cvc5', '--lang', 'smt2', '--solve-bv-as-int=sum']))
    # Q2: VarInt::size(v) is the least k in {1,2,4,8} with v < 2^(8k-2), never panics for v < 2^62
    vs, ps = val(size, 'v')
    q2 = '''(set-logic ALL)
(declare-const v (_ BitVec 64))
(assert (bvule v #x3fffffffffffffff))
(define-fun ref () (_ BitVec 64) (ite (bvult v #x0000000000000040) (_ bv1 64) (ite (bvult v #x0000000000004000) (_ bv2 64) (ite (bvult v #x0000000040000000) (_ bv4 64) (_ bv8 64)))))
(assert (or %s (not (= %s ref))))
(check-sat)
''' % (ps, vs)
    print('Q2 size (expect unsat): cvc5 ->', ask(q2, ['cvc5', '--lang', 'smt2']), '| z3 ->', ask(q2, ['z3', '-in']))


if __name__ == '__main__':
    main()
