#![allow(unused)]
use wtransport_proto::verif_hooks::qpack as q;
use wtransport_proto::qpack::DecodingError;

// totality + "too large is an error, never a silently wrong value" for the QPACK prefix integer (N=7)
#[cfg(kani)]
#[kani::proof]
#[kani::unwind(14)]
fn qpack_int_decode_total_n7() {
    const L: usize = 12;
    let buf: [u8; L] = kani::any();
    let len: usize = kani::any();
    kani::assume(len <= L);
    let mut s: &[u8] = &buf[..len];
    let r = q::decode_integer::<7>(&mut s);
    if let Ok((_f, v)) = r {
        // reference value as u128
        let consumed = len - s.len();
        let mut refv: u128 = (buf[0] & 0x7f) as u128;
        if refv == 0x7f {
            let mut i = 1; let mut p = 0u32;
            while i < consumed { refv += ((buf[i] & 0x7f) as u128) << p; p += 7; i += 1; }
        }
        assert!(refv == v as u128);
    }
}

#[cfg(kani)]
#[kani::proof]
#[kani::unwind(12)]
fn qpack_int_roundtrip_n5() {
    let v: usize = kani::any();
    let flags: u8 = kani::any();
    kani::assume(flags < 8);
    let mut out = Vec::new();
    q::encode_integer::<5>(flags, v, &mut out);
    let mut s: &[u8] = &out;
    let (f2, v2) = q::decode_integer::<5>(&mut s).unwrap();
    assert!(f2 == flags && v2 == v && s.is_empty());
    core::mem::forget(out);
}

#[cfg(kani)]
#[kani::proof]
#[kani::unwind(40)]
fn qpack_string_roundtrip_n7() {
    const L: usize = 2;
    let b: [u8; L] = kani::any();
    let len: usize = kani::any();
    kani::assume(len <= L);
    let mut i = 0; while i < L { kani::assume(b[i] < 0x80); i += 1; }
    let s = unsafe { std::str::from_utf8_unchecked(&b[..len]) };
    let mut out = Vec::new();
    q::encode_string::<7>(0, s, &mut out);
    let mut rd: &[u8] = &out;
    let back = q::decode_string::<7>(&mut rd).unwrap();
    assert!(back.as_bytes().len() == len);
    let mut i = 0; while i < len { assert!(back.as_bytes()[i] == b[i]); i += 1; }
    assert!(rd.is_empty());
    core::mem::forget(out); core::mem::forget(back);
}

use wtransport_proto::stream::Stream;
use wtransport_proto::frame::{Frame, FrameKind};

#[cfg(kani)]
#[kani::proof]
#[kani::unwind(12)]
fn unknown_frame_skipped_whole() {
    let t: u8 = kani::any();
    kani::assume(t < 0x40);
    kani::assume(t != 0x00 && t != 0x01 && t != 0x04);
    kani::assume(!(t >= 0x21 && (t - 0x21) % 0x1f == 0));
    let l: u8 = kani::any();
    kani::assume(l <= 3);
    let p: [u8; 3] = kani::any();
    let mut buf = [0u8; 8];
    buf[0] = t; buf[1] = l;
    let mut i = 0usize;
    while i < l as usize { buf[2 + i] = p[i]; i += 1; }
    let n = 2 + l as usize;
    buf[n] = 0x04; buf[n + 1] = 0x00;
    let total = n + 2;

    let mut hdr: &[u8] = &[0x00];
    let q = Stream::accept_uni();
    let mut h3 = match q.upgrade(&mut hdr) {
        Ok(wtransport_proto::stream::uniremote::MaybeUpgradeH3::H3(s)) => s,
        _ => unreachable!(),
    };
    let mut rd: &[u8] = &buf[..total];
    let r = h3.read_frame(&mut rd);
    match r {
        Ok(Some(f)) => { assert!(matches!(f.kind(), FrameKind::Settings)); assert!(rd.is_empty()); }
        _ => assert!(false, "unknown frame not skipped whole"),
    }
}
