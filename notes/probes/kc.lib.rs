#![allow(unused)]
use std::future::Future;
use std::pin::Pin;
use std::task::{Context, Poll, Waker};
use wtransport_proto::bytes::{AsyncRead, BytesReaderAsync, BufferReader, BytesReader};
use wtransport_proto::bytes;

pub const N: usize = 9;

pub struct ChunkReader {
    pub data: [u8; N],
    pub len: usize,
    pub off: usize,
    pub pendings: usize,
}

impl AsyncRead for ChunkReader {
    fn poll_read(mut self: Pin<&mut Self>, _cx: &mut Context<'_>, buf: &mut [u8]) -> Poll<std::io::Result<usize>> {
        let this = self.get_mut();
        #[cfg(kani)]
        {
            let pend: bool = kani::any();
            if pend && this.pendings < 3 { this.pendings += 1; return Poll::Pending; }
        }
        let left = this.len - this.off;
        let want = if left < buf.len() { left } else { buf.len() };
        let mut n = want;
        #[cfg(kani)]
        if want > 0 { n = kani::any(); kani::assume(n >= 1 && n <= want); }
        let mut i = 0;
        while i < N {
            if i < n { buf[i] = this.data[this.off + i]; }
            i += 1;
        }
        this.off += n;
        Poll::Ready(Ok(n))
    }
}

fn io_err_stub(e: std::io::Error) -> bytes::IoReadError { core::mem::forget(e); bytes::IoReadError::NotConnected }

#[cfg(kani)]
#[kani::proof]
#[kani::unwind(12)]
#[kani::stub(<wtransport_proto::bytes::IoReadError as std::convert::From<std::io::Error>>::from, io_err_stub)]
fn get_varint_chunking() {
    let buf: [u8; N] = kani::any();
    let len: usize = kani::any();
    kani::assume(len <= N);
    let sync = BufferReader::new(&buf[..len]).get_varint();

    let mut rd = ChunkReader { data: buf, len, off: 0, pendings: 0 };
    let mut cx = Context::from_waker(Waker::noop());
    let mut out = None;
    {
        let mut fut = rd.get_varint();
        let mut i = 0;
        while i < 11 {
            if let Poll::Ready(v) = Pin::new(&mut fut).poll(&mut cx) { out = Some(v); break; }
            i += 1;
        }
    }
    let out = match out { Some(o) => o, None => { kani::assume(false); unreachable!() } };
    match (sync, out) {
        (Some(v), Ok(a)) => { assert!(v.into_inner() == a.into_inner()); assert!(rd.off == v.size()); }
        (None, Err(bytes::IoReadError::ImmediateFin)) => assert!(len == 0 && rd.off == 0),
        (None, Err(bytes::IoReadError::UnexpectedFin)) => assert!(len > 0 && rd.off == len),
        _ => assert!(false, "disagree"),
    }
}
