#![allow(unused)]
// mirror prelude: the imports of wtransport/src/tls.rs and tls::client that the sliced item relies on
use rustls::client::danger::ServerCertVerified;
use rustls_pki_types::CertificateDer;
use sha2::Digest;
use sha2::Sha256;
use x509_parser::certificate::X509Certificate;
use x509_parser::prelude::FromDer;

#[derive(Debug, Clone, Eq, Hash, PartialEq, PartialOrd, Ord)]
pub struct Sha256Digest([u8; 32]);

/// model of BTreeSet<Sha256Digest> with at most 2 members
pub struct ModelSet { pub items: [Option<Sha256Digest>; 2] }
impl ModelSet {
    pub fn contains(&self, d: &Sha256Digest) -> bool {
        let mut i = 0;
        while i < 2 { if let Some(x) = &self.items[i] { if x == d { return true; } } i += 1; }
        false
    }
}

pub struct ServerHashVerification { hashes: ModelSet }

include!("sliced.rs");

#[cfg(kani)]
#[kani::proof]
#[kani::unwind(34)]
fn pinning_decision_exact() {
    let cert: [u8; 52] = kani::any();
    let now: u64 = kani::any();
    kani::assume(now <= time::OffsetDateTime::MAX_TS as u64);
    let h0: [u8; 32] = kani::any();
    let h1: [u8; 32] = kani::any();
    let n: u8 = kani::any();
    kani::assume(n <= 2);
    let v = ServerHashVerification { hashes: ModelSet { items: [if n >= 1 { Some(Sha256Digest(h0)) } else { None }, if n >= 2 { Some(Sha256Digest(h1)) } else { None }] } };
    let der = CertificateDer::from(&cert[..]);
    let name = rustls_pki_types::ServerName::try_from("localhost").unwrap();
    let r = v.verify_server_cert(&der, &[], &name, &[], rustls_pki_types::UnixTime::since_unix_epoch(core::time::Duration::from_secs(now)));

    // independent oracle over the model certificate's fields
    let ok = cert[0] == 1;
    let nb = i64::from_be_bytes([cert[1], cert[2], cert[3], cert[4], cert[5], cert[6], cert[7], cert[8]]);
    let na = i64::from_be_bytes([cert[9], cert[10], cert[11], cert[12], cert[13], cert[14], cert[15], cert[16]]);
    let in_range = |t: i64| t >= time::OffsetDateTime::MIN_TS && t <= time::OffsetDateTime::MAX_TS;
    let parsed = ok && in_range(nb) && in_range(na);
    let mut digest = [0u8; 32]; let mut i = 0; while i < 32 { digest[i] = cert[20 + i]; i += 1; }
    let pinned = (n >= 1 && digest == h0) || (n >= 2 && digest == h1);
    let nowi = now as i64;
    let expect = parsed && nb <= nowi && nowi <= na && na > nb && (na - nb) <= 14 * 86_400
        && cert[17] == 1 && cert[18] == 1 && cert[19] == 10 && pinned;
    assert!(r.is_ok() == expect);
    kani::cover!(r.is_ok());
    core::mem::forget(r);
}
