impl ServerHashVerification {
    const SELF_MAX_VALIDITY: time::Duration = time::Duration::days(14);

    pub fn verify_server_cert(
            &self,
            end_entity: &CertificateDer,
            _intermediates: &[CertificateDer],
            _server_name: &rustls_pki_types::ServerName,
            _ocsp_response: &[u8],
            now: rustls_pki_types::UnixTime,
        ) -> Result<ServerCertVerified, rustls::Error> {
            use time::OffsetDateTime;
            use x509_parser::oid_registry::OID_EC_P256;
            use x509_parser::oid_registry::OID_KEY_TYPE_EC_PUBLIC_KEY;
            use x509_parser::time::ASN1Time;

            let now = ASN1Time::new(
                now.as_secs()
                    .try_into()
                    .ok()
                    .and_then(|time| OffsetDateTime::from_unix_timestamp(time).ok())
                    .expect("time overflow"),
            );

            let x509 = X509Certificate::from_der(end_entity.as_ref())
                .map_err(|_| rustls::CertificateError::BadEncoding)?
                .1;

            match x509.validity() {
                x if now < x.not_before => {
                    return Err(rustls::CertificateError::NotValidYet.into());
                }
                x if now > x.not_after => {
                    return Err(rustls::CertificateError::Expired.into());
                }
                _ => {}
            }

            let validity_period = x509.validity().not_after - x509.validity.not_before;
            if !matches!(validity_period, Some(x) if x <= Self::SELF_MAX_VALIDITY) {
                return Err(rustls::CertificateError::UnknownIssuer.into());
            }

            if x509.public_key().algorithm.algorithm != OID_KEY_TYPE_EC_PUBLIC_KEY {
                return Err(rustls::CertificateError::UnknownIssuer.into());
            }

            if !matches!(x509.public_key().algorithm.parameters.as_ref().map(|any| any.as_oid()),
                         Some(Ok(oid)) if oid == OID_EC_P256)
            {
                return Err(rustls::CertificateError::UnknownIssuer.into());
            }

            // TODO: Duplicates logic in `Certificate::from_der`, to avoid allocating
            X509Certificate::from_der(end_entity.as_ref())
                .map_err(|_| rustls::CertificateError::BadEncoding)?;
            // TODO: Duplicates logic in `Certificate::hash`, to avoid allocating
            let end_entity_hash = Sha256Digest(Sha256::digest(end_entity.as_ref()).into());

            if self.hashes.contains(&end_entity_hash) {
                Ok(ServerCertVerified::assertion())
            } else {
                Err(rustls::CertificateError::UnknownIssuer.into())
            }
        }
}
