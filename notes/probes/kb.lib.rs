#![allow(unused)]
use std::future::Future;
use std::pin::Pin;
use std::task::{Context, Poll, Waker};
use wtransport_proto::bytes::AsyncRead;
use wtransport_proto::bytes;
use wtransport_proto::stream_header::{StreamHeader, StreamKind};
use wtransport_proto::stream_header;

pub const N: usize = 6;

pub struct ChunkReader {
    pub data: [u8; N],
    pub len: usize,
    pub off: usize,
    pub pendings: usize,
}

impl AsyncRead for ChunkReader {
    fn poll_read(mut self: Pin<&mut Self>, _cx: &mut Context<'_>, buf: &mut [u8]) -> Poll<std::io::Result<usize>> {
        let this = self.get_mut();
        #[cfg(kani)]
        {
            let pend: bool = kani::any();
            if pend && this.pendings < 2 { this.pendings += 1; return Poll::Pending; }
        }
        let left = this.len - this.off;
        let want = if left < buf.len() { left } else { buf.len() };
        let mut n = want;
        #[cfg(kani)]
        if want > 0 { n = kani::any(); kani::assume(n >= 1 && n <= want); }
        let mut i = 0;
        while i < N {
            if i < n { buf[i] = this.data[this.off + i]; }
            i += 1;
        }
        this.off += n;
        Poll::Ready(Ok(n))
    }
}

fn io_err_stub(e: std::io::Error) -> bytes::IoReadError { core::mem::forget(e); bytes::IoReadError::NotConnected }

fn drive<F: Future>(fut: F, max_polls: usize) -> Option<F::Output> {
    let mut fut = std::pin::pin!(fut);
    let mut cx = Context::from_waker(Waker::noop());
    let mut i = 0;
    while i < max_polls {
        if let Poll::Ready(v) = fut.as_mut().poll(&mut cx) { return Some(v); }
        i += 1;
    }
    None
}

#[cfg(kani)]
#[kani::proof]
#[kani::unwind(9)]
#[kani::stub(<wtransport_proto::bytes::IoReadError as std::convert::From<std::io::Error>>::from, io_err_stub)]
fn header_sync_async_agree() {
    let buf: [u8; N] = kani::any();
    let len: usize = kani::any();
    kani::assume(len <= N);

    let mut s: &[u8] = &buf[..len];
    let sync = StreamHeader::read(&mut s);
    let sync_consumed = len - s.len();

    let mut rd = ChunkReader { data: buf, len, off: 0, pendings: 0 };
    let asy = drive(StreamHeader::read_async(&mut rd), 3);
    let asy = match asy { Some(a) => a, None => { kani::assume(false); unreachable!() } };

    match (sync, asy) {
        (Ok(Some(hs)), Ok(ha)) => {
            assert!(hs.session_id().map(|s| s.into_u64()) == ha.session_id().map(|s| s.into_u64()));
            assert!(sync_consumed == rd.off);
        }
        (Ok(None), Err(stream_header::IoReadError::IO(bytes::IoReadError::ImmediateFin))) => { assert!(len == 0); }
        (Ok(None), Err(stream_header::IoReadError::IO(bytes::IoReadError::UnexpectedFin))) => { assert!(len > 0); }
        (Err(stream_header::ParseError::UnknownStream), Err(stream_header::IoReadError::Parse(stream_header::ParseError::UnknownStream))) => { assert!(sync_consumed == rd.off); }
        (Err(stream_header::ParseError::InvalidSessionId), Err(stream_header::IoReadError::Parse(stream_header::ParseError::InvalidSessionId))) => {}
        _ => { assert!(false, "sync/async disagree"); }
    }
}
