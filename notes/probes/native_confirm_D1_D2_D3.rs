use wtransport_proto::qpack::Decoder;
use wtransport_proto::ids::StatusCode;
use wtransport_proto::frame::Frame;
use wtransport_proto::headers::Headers;
use std::borrow::Cow;
#[test]
fn d1_dev_panics_or_wrong() {
    let data = [0xffu8, 0x80, 0x80, 0x80, 0x80, 0x80, 0x80, 0x80, 0x80, 0x80, 0x80, 0x01, 0x00];
    let r = std::panic::catch_unwind(|| Headers::with_frame(&Frame::new_headers(Cow::Borrowed(&data))).map(|_| ()));
    println!("D1 result: {:?}", r.as_ref().map(|x| x.is_ok()).map_err(|_| "PANIC"));
}
#[test]
fn d2_status() {
    println!("D2: {:?} {:?} {:?}", "0".parse::<StatusCode>().map(|s| s.into_inner()).ok(), "65535".parse::<StatusCode>().map(|s| s.into_inner()).ok(), "+200".parse::<StatusCode>().map(|s| s.into_inner()).ok());
}
#[test]
fn d3_goaway() {
    use wtransport_proto::stream::Stream;
    use wtransport_proto::stream::uniremote::MaybeUpgradeH3;
    let mut hdr: &[u8] = &[0x00];
    let mut h3 = match Stream::accept_uni().upgrade(&mut hdr) { Ok(MaybeUpgradeH3::H3(s)) => s, _ => unreachable!() };
    // SETTINGS(empty) then GOAWAY(id 0) then a GREASE frame
    let mut rd: &[u8] = &[0x04, 0x00, 0x07, 0x01, 0x00, 0x21, 0x00];
    let a = h3.read_frame(&mut rd).map(|f| f.map(|f| format!("{:?}", f.kind())));
    let b = h3.read_frame(&mut rd).map(|f| f.map(|f| format!("{:?}", f.kind())));
    println!("D3: first={:?} second={:?}", a, b);
}
