//! Environment model of an invertible byte code whose output may be shorter or longer than its input and
//! whose decoder may fail. One bulk operation per call (no per-byte pushes).
//!   runs of >= 4 equal bytes (<= 255)  ->  [0x01, byte, len]      (shorter)
//!   anything else                      ->  [0x00] ++ input        (longer)
#[derive(Debug)] pub struct EncoderError;
#[derive(Debug)] pub struct DecoderError;
pub enum DecoderSpeed { OneBit, TwoBits, ThreeBits, FourBits, FiveBits }

pub fn encode(src: &[u8], dst: &mut Vec<u8>) -> Result<(), EncoderError> {
    let n = src.len();
    let mut same = n >= 4 && n <= 255;
    if same { let mut i = 1; while i < n { if src[i] != src[0] { same = false; break; } i += 1; } }
    if same { dst.extend_from_slice(&[0x01, src[0], n as u8]); } else { dst.push(0x00); dst.extend_from_slice(src); }
    Ok(())
}

pub fn decode(src: &[u8], dst: &mut Vec<u8>, _speed: DecoderSpeed) -> Result<(), DecoderError> {
    if src.is_empty() { return Err(DecoderError); }
    match src[0] {
        0x00 => { dst.extend_from_slice(&src[1..]); Ok(()) }
        0x01 if src.len() == 3 && src[2] >= 4 => { dst.resize(src[2] as usize, src[1]); Ok(()) }
        _ => Err(DecoderError),
    }
}
