//! Environment model of an invertible byte code whose output may be shorter or longer than the input
//! and whose decoder may fail: run-length pairs (count 1..=255, byte).
#[derive(Debug)] pub struct EncoderError;
#[derive(Debug)] pub struct DecoderError;
pub enum DecoderSpeed { OneBit, TwoBits, ThreeBits, FourBits, FiveBits }

pub fn encode(src: &[u8], dst: &mut Vec<u8>) -> Result<(), EncoderError> {
    let mut i = 0;
    while i < src.len() {
        let b = src[i];
        let mut n = 1usize;
        while i + n < src.len() && src[i + n] == b && n < 255 { n += 1; }
        dst.push(n as u8); dst.push(b);
        i += n;
    }
    Ok(())
}

pub fn decode(src: &[u8], dst: &mut Vec<u8>, _speed: DecoderSpeed) -> Result<(), DecoderError> {
    if src.len() % 2 != 0 { return Err(DecoderError); }
    let mut i = 0;
    while i < src.len() {
        let n = src[i]; let b = src[i + 1];
        if n == 0 { return Err(DecoderError); }
        let mut k = 0; while k < n { dst.push(b); k += 1; }
        i += 2;
    }
    Ok(())
}
