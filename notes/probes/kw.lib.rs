#![allow(unused)]
use wtransport::tls::Sha256Digest;
use wtransport::VarInt;
use wtransport::error::{StreamReadError, StreamWriteError, ConnectionError};
use wtransport::quinn;

#[cfg(kani)]
#[kani::proof]
fn read_error_map() {
    let c: u64 = kani::any();
    kani::assume(c < (1u64 << 62));
    let qc = quinn::VarInt::from_u64(c).unwrap();
    let e: StreamReadError = quinn::ReadError::Reset(qc).into();
    match e { StreamReadError::Reset(v) => assert!(v.into_inner() == c), _ => assert!(false) }
    let w: StreamWriteError = quinn::WriteError::Stopped(qc).into();
    match w { StreamWriteError::Stopped(v) => assert!(v.into_inner() == c), _ => assert!(false) }
}

#[cfg(kani)]
#[kani::proof]
#[kani::unwind(6)]
fn app_close_map() {
    let c: u64 = kani::any();
    kani::assume(c < (1u64 << 62));
    let qc = quinn::VarInt::from_u64(c).unwrap();
    let r: [u8; 4] = kani::any();
    let len: usize = kani::any();
    kani::assume(len <= 4);
    let close = quinn::ApplicationClose { error_code: qc, reason: bytes::Bytes::copy_from_slice(&r[..len]) };
    let e: ConnectionError = quinn::ConnectionError::ApplicationClosed(close).into();
    match &e {
        ConnectionError::ApplicationClosed(a) => {
            assert!(a.code().into_inner() == c);
            assert!(a.reason().len() == len);
            let mut i = 0; while i < len { assert!(a.reason()[i] == r[i]); i += 1; }
        }
        _ => assert!(false),
    }
    core::mem::forget(e);
}

#[cfg(kani)]
#[kani::proof]
#[kani::unwind(10)]
fn datagram_roundtrip() {
    use wtransport::verif_hooks as h;
    let q: u64 = kani::any();
    kani::assume(q < (1u64 << 60));
    let sid = wtransport::proto::ids::SessionId::try_from_session_stream(
        wtransport::proto::ids::StreamId::new(VarInt::try_from_u64(q << 2).unwrap())).unwrap();
    let p: [u8; 4] = kani::any();
    let len: usize = kani::any();
    kani::assume(len <= 4);
    let d = h::datagram_write(sid, &p[..len]);
    assert!(d.len() == len);
    let wire = h::datagram_into_quic_bytes(d);
    assert!(wire.len() == h::datagram_header_size(sid) + len);
    let back = h::datagram_read(wire).unwrap();
    assert!(back.session_id() == sid);
    assert!(back.len() == len);
    let mut i = 0; while i < len { assert!(back[i] == p[i]); i += 1; }
    core::mem::forget(back);
}

#[cfg(kani)]
#[kani::proof]
#[kani::unwind(40)]
fn digest_hex_roundtrip() {
    use wtransport::tls::Sha256DigestFmt;
    let b: [u8; 32] = kani::any();
    let d = Sha256Digest::new(b);
    let s = d.fmt(Sha256DigestFmt::DottedHex);
    let back = Sha256Digest::from_str_fmt(&s, Sha256DigestFmt::DottedHex);
    match back { Ok(x) => assert!(x == d), Err(_) => assert!(false) }
}

#[cfg(kani)]
#[kani::proof]
#[kani::unwind(12)]
fn digest_parse_total() {
    use wtransport::tls::Sha256DigestFmt;
    let b: [u8; 6] = kani::any();
    let len: usize = kani::any();
    kani::assume(len <= 6);
    let mut i = 0; while i < 6 { kani::assume(b[i] < 0x80); i += 1; }
    let s = unsafe { std::str::from_utf8_unchecked(&b[..len]) };
    let hex: bool = kani::any();
    let r = Sha256Digest::from_str_fmt(s, if hex { Sha256DigestFmt::DottedHex } else { Sha256DigestFmt::BytesArray });
    assert!(r.is_err());
}
