#![allow(unused)]
use std::future::Future;
use std::pin::Pin;
use std::task::{Context, Poll, Waker};
use wtransport_proto::bytes::{AsyncRead, BufferReader, BytesReader};
use wtransport_proto::bytes::r#async::GetVarint;
use wtransport_proto::bytes;
use wtransport_proto::varint::VarInt;

/// Environment: at most `budget` Ready results per poll, then Pending; each Ready delivers 0..=buf.len() arbitrary bytes (0 = EOF).
pub struct StepEnv { pub budget: usize, pub delivered: [u8; 8], pub ndeliv: usize, pub eof: bool }

impl AsyncRead for StepEnv {
    fn poll_read(mut self: Pin<&mut Self>, _cx: &mut Context<'_>, buf: &mut [u8]) -> Poll<std::io::Result<usize>> {
        let this = self.get_mut();
        if this.budget == 0 { return Poll::Pending; }
        #[cfg(kani)]
        {
            let pend: bool = kani::any();
            if pend { this.budget = 0; return Poll::Pending; }
            this.budget -= 1;
            let n: usize = kani::any();
            kani::assume(n <= buf.len());
            let bytes: [u8; 8] = kani::any();
            let mut i = 0;
            while i < 8 { if i < n { buf[i] = bytes[i]; this.delivered[this.ndeliv + i] = bytes[i]; } i += 1; }
            this.ndeliv += n;
            if n == 0 { this.eof = true; }
            return Poll::Ready(Ok(n));
        }
        #[allow(unreachable_code)]
        Poll::Pending
    }
}

fn io_err_stub(e: std::io::Error) -> bytes::IoReadError { core::mem::forget(e); bytes::IoReadError::NotConnected }

#[cfg(kani)]
#[kani::proof]
#[kani::unwind(10)]
#[kani::stub(<wtransport_proto::bytes::IoReadError as std::convert::From<std::io::Error>>::from, io_err_stub)]
fn get_varint_step() {
    // arbitrary state satisfying the representation invariant
    let buffer: [u8; 8] = kani::any();
    let offset: usize = kani::any();
    let varint_size: usize = kani::any();
    kani::assume(offset <= 8);
    if offset == 0 { kani::assume(varint_size == 0); }
    else { kani::assume(varint_size == VarInt::parse_size(buffer[0]) && offset <= varint_size); }
    // a completed future is never polled again
    kani::assume(offset == 0 || offset < varint_size || varint_size == 1);

    let mut env = StepEnv { budget: 2, delivered: [0; 8], ndeliv: 0, eof: false };
    let mut fut = GetVarint::verif_from_parts(&mut env, buffer, offset, varint_size);
    let mut cx = Context::from_waker(Waker::noop());
    let r = Pin::new(&mut fut).poll(&mut cx);
    let (b2, o2, s2) = fut.verif_parts();
    drop(fut);
    match r {
        Poll::Pending => {
            // invariant preserved, consumed bytes appended in order, nothing lost
            assert!(o2 == offset + env.ndeliv);
            assert!(o2 <= 8);
            if o2 > 0 { assert!(s2 == VarInt::parse_size(b2[0]) && o2 <= s2); } else { assert!(s2 == 0); }
            let mut i = 0; while i < 8 { if i < offset { assert!(b2[i] == buffer[i]); } else if i < o2 { assert!(b2[i] == env.delivered[i - offset]); } i += 1; }
            assert!(!env.eof);
        }
        Poll::Ready(Ok(v)) => {
            assert!(o2 == s2 && o2 == offset + env.ndeliv);
            let refv = BufferReader::new(&b2[..s2]).get_varint().unwrap();
            assert!(refv.into_inner() == v.into_inner());
            let mut i = 0; while i < 8 { if i < offset { assert!(b2[i] == buffer[i]); } else if i < o2 { assert!(b2[i] == env.delivered[i - offset]); } i += 1; }
        }
        Poll::Ready(Err(bytes::IoReadError::ImmediateFin)) => { assert!(env.eof && offset == 0 && env.ndeliv == 0); }
        Poll::Ready(Err(bytes::IoReadError::UnexpectedFin)) => { assert!(env.eof && offset + env.ndeliv > 0); }
        Poll::Ready(Err(_)) => { assert!(false); }
    }
}
