#!/bin/bash
d=$1; h=$2; t=$3; shift 3
cd /tmp/probe/$d
ulimit -v 20000000
( time RUSTFLAGS="--cfg wtransport_verif" CARGO_NET_OFFLINE=true timeout $t cargo kani "$@" --harness $h ) > /tmp/probe/$d.$h.log 2>&1
echo "EXIT $?" >> /tmp/probe/$d.$h.log
