//! ENVIRONMENT MODEL of the part of `tokio::sync::watch` used by driver/streams/settings.rs: the sender owns a cell
//! holding the last value (what `Sender::borrow` / `send_replace` observe). Receivers are NOT modelled (no wake-ups,
//! no scheduling): `RemoteSettingsWatcher` is outside every claim. No reference counting, no allocation.
pub mod sync {
    pub mod watch {
        use std::cell::{Ref, RefCell};
        use std::marker::PhantomData;

        pub struct Sender<T> {
            value: RefCell<T>,
        }
        pub struct Receiver<T> {
            _detached: PhantomData<T>,
        }
        #[derive(Debug)]
        pub struct RecvError;

        pub fn channel<T>(init: T) -> (Sender<T>, Receiver<T>) {
            (Sender { value: RefCell::new(init) }, Receiver { _detached: PhantomData })
        }

        impl<T> Sender<T> {
            pub fn borrow(&self) -> Ref<'_, T> {
                self.value.borrow()
            }
            pub fn send_replace(&self, value: T) -> T {
                self.value.replace(value)
            }
            pub fn subscribe(&self) -> Receiver<T> {
                Receiver { _detached: PhantomData }
            }
        }

        impl<T> Receiver<T> {
            /// not modelled: a detached receiver never observes a change
            pub async fn changed(&mut self) -> Result<(), RecvError> {
                Err(RecvError)
            }
            pub fn borrow(&self) -> Ref<'_, T> {
                unreachable!("model receivers are detached")
            }
        }
    }
}
