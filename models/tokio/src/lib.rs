//! ENVIRONMENT MODELS of the parts of tokio the sliced driver code names.
//! `sync::watch` (driver/streams/settings.rs): the sender owns a cell
//! holding the last value (what `Sender::borrow` / `send_replace` observe). Receivers are NOT modelled (no wake-ups,
//! no scheduling): `RemoteSettingsWatcher` is outside every claim. No reference counting, no allocation.
pub mod sync {
    pub mod watch {
        use std::cell::{Ref, RefCell};
        use std::marker::PhantomData;

        pub struct Sender<T> {
            value: RefCell<T>,
        }
        pub struct Receiver<T> {
            _detached: PhantomData<T>,
        }
        #[derive(Debug)]
        pub struct RecvError;

        static mut SENDS: usize = 0;
        /// number of `send_replace` calls on any model watch channel (harness observation point)
        pub fn model_sends() -> usize {
            unsafe { SENDS }
        }

        pub fn channel<T>(init: T) -> (Sender<T>, Receiver<T>) {
            (Sender { value: RefCell::new(init) }, Receiver { _detached: PhantomData })
        }

        impl<T> Sender<T> {
            pub fn borrow(&self) -> Ref<'_, T> {
                self.value.borrow()
            }
            pub fn send_replace(&self, value: T) -> T {
                unsafe {
                    SENDS += 1;
                }
                self.value.replace(value)
            }
            pub fn subscribe(&self) -> Receiver<T> {
                Receiver { _detached: PhantomData }
            }
        }

        impl<T> Receiver<T> {
            /// not modelled: a detached receiver never observes a change
            pub async fn changed(&mut self) -> Result<(), RecvError> {
                Err(RecvError)
            }
            pub fn borrow(&self) -> Ref<'_, T> {
                unreachable!("model receivers are detached")
            }
        }
    }

    /// MODEL of `tokio::sync::Mutex`: `lock()` resolves when no other task holds the lock (flag set by the harness);
    /// a guard derefs to the protected value. No wait queue, no fairness: whether the lock is free at a poll is the
    /// harness's choice. (Built on RefCell: a second guard while one is alive would panic - the sliced code never
    /// does that.)
    pub struct Mutex<T> {
        pub held_elsewhere: std::cell::Cell<bool>,
        value: std::cell::RefCell<T>,
    }
    pub struct MutexGuard<'a, T> {
        g: std::cell::RefMut<'a, T>,
    }
    pub struct LockFut<'a, T> {
        m: &'a Mutex<T>,
    }
    impl<T> Mutex<T> {
        pub fn new(value: T) -> Self {
            Mutex { held_elsewhere: std::cell::Cell::new(false), value: std::cell::RefCell::new(value) }
        }
        pub fn lock(&self) -> LockFut<'_, T> {
            LockFut { m: self }
        }
        /// harness access to the protected value while no guard exists
        pub fn model_peek(&self) -> std::cell::Ref<'_, T> {
            self.value.borrow()
        }
    }
    impl<'a, T> std::future::Future for LockFut<'a, T> {
        type Output = MutexGuard<'a, T>;
        fn poll(self: std::pin::Pin<&mut Self>, _cx: &mut std::task::Context<'_>) -> std::task::Poll<Self::Output> {
            if self.m.held_elsewhere.get() {
                std::task::Poll::Pending
            } else {
                std::task::Poll::Ready(MutexGuard { g: self.m.value.borrow_mut() })
            }
        }
    }
    impl<T> std::ops::Deref for MutexGuard<'_, T> {
        type Target = T;
        fn deref(&self) -> &T {
            &self.g
        }
    }
    impl<T> std::ops::DerefMut for MutexGuard<'_, T> {
        fn deref_mut(&mut self) -> &mut T {
            &mut self.g
        }
    }

    /// MODEL of the bounded `tokio::sync::mpsc` channel as the driver uses it. The sending half is a counter
    /// automaton (free slots / reserved permits / sent values / closed) owned by the harness; the receiving half is a
    /// separate scripted queue of up to three values. The two halves are NOT connected: what the worker sends and what
    /// `Driver::accept_*` receives are decided by different harnesses.
    pub mod mpsc {
        use std::cell::Cell;
        use std::future::Future;
        use std::marker::PhantomData;
        use std::pin::Pin;
        use std::task::{Context, Poll};

        pub mod error {
            #[derive(Debug)]
            pub struct SendError<T>(pub T);
            #[derive(Debug)]
            pub enum TrySendError<T> {
                Full(T),
                Closed(T),
            }
        }

        pub struct ChanState {
            pub free: Cell<usize>,
            pub reserved: Cell<usize>,
            pub sent: Cell<usize>,
            pub closed: Cell<bool>,
        }
        impl ChanState {
            pub fn new(free: usize, closed: bool) -> Self {
                ChanState { free: Cell::new(free), reserved: Cell::new(0), sent: Cell::new(0), closed: Cell::new(closed) }
            }
        }

        pub struct Sender<T> {
            st: *const ChanState,
            _p: PhantomData<T>,
        }
        impl<T> Clone for Sender<T> {
            fn clone(&self) -> Self {
                Sender { st: self.st, _p: PhantomData }
            }
        }
        impl<T> Sender<T> {
            pub fn model(st: &ChanState) -> Self {
                Sender { st, _p: PhantomData }
            }
            fn st(&self) -> &ChanState {
                unsafe { &*self.st }
            }
            pub fn capacity(&self) -> usize {
                self.st().free.get()
            }
            pub fn is_closed(&self) -> bool {
                self.st().closed.get()
            }
            /// non-waiting send: takes a free slot if there is one
            pub fn try_send(&self, value: T) -> Result<(), error::TrySendError<T>> {
                let st = self.st();
                if st.closed.get() {
                    Err(error::TrySendError::Closed(value))
                } else if st.free.get() > 0 {
                    st.free.set(st.free.get() - 1);
                    st.sent.set(st.sent.get() + 1);
                    std::mem::forget(value);
                    Ok(())
                } else {
                    Err(error::TrySendError::Full(value))
                }
            }
            pub fn reserve_owned(self) -> ReserveOwned<T> {
                ReserveOwned { tx: Some(self) }
            }
            pub fn reserve(&self) -> Reserve<'_, T> {
                Reserve { tx: self }
            }
        }

        fn take_slot(st: &ChanState) -> Option<Result<(), ()>> {
            if st.closed.get() {
                Some(Err(()))
            } else if st.free.get() > 0 {
                st.free.set(st.free.get() - 1);
                st.reserved.set(st.reserved.get() + 1);
                Some(Ok(()))
            } else {
                None
            }
        }

        pub struct ReserveOwned<T> {
            tx: Option<Sender<T>>,
        }
        impl<T> Unpin for ReserveOwned<T> {}
        impl<T> Future for ReserveOwned<T> {
            type Output = Result<OwnedPermit<T>, error::SendError<()>>;
            fn poll(mut self: Pin<&mut Self>, _cx: &mut Context<'_>) -> Poll<Self::Output> {
                let st = self.tx.as_ref().expect("polled after completion").st;
                match take_slot(unsafe { &*st }) {
                    None => Poll::Pending,
                    Some(Err(())) => Poll::Ready(Err(error::SendError(()))),
                    Some(Ok(())) => {
                        self.tx = None;
                        Poll::Ready(Ok(OwnedPermit { st, live: true, _p: PhantomData }))
                    }
                }
            }
        }
        pub struct OwnedPermit<T> {
            st: *const ChanState,
            live: bool,
            _p: PhantomData<T>,
        }
        impl<T> OwnedPermit<T> {
            pub fn send(mut self, value: T) -> Sender<T> {
                let st = unsafe { &*self.st };
                st.reserved.set(st.reserved.get() - 1);
                st.sent.set(st.sent.get() + 1);
                self.live = false;
                std::mem::forget(value);
                Sender { st: self.st, _p: PhantomData }
            }
        }
        impl<T> Drop for OwnedPermit<T> {
            fn drop(&mut self) {
                if self.live {
                    let st = unsafe { &*self.st };
                    st.reserved.set(st.reserved.get() - 1);
                    st.free.set(st.free.get() + 1);
                }
            }
        }

        pub struct Reserve<'a, T> {
            tx: &'a Sender<T>,
        }
        impl<'a, T> Future for Reserve<'a, T> {
            type Output = Result<Permit<'a, T>, error::SendError<()>>;
            fn poll(self: Pin<&mut Self>, _cx: &mut Context<'_>) -> Poll<Self::Output> {
                match take_slot(self.tx.st()) {
                    None => Poll::Pending,
                    Some(Err(())) => Poll::Ready(Err(error::SendError(()))),
                    Some(Ok(())) => Poll::Ready(Ok(Permit { tx: self.tx, live: true })),
                }
            }
        }
        pub struct Permit<'a, T> {
            tx: &'a Sender<T>,
            live: bool,
        }
        impl<T> Permit<'_, T> {
            pub fn send(mut self, value: T) {
                let st = self.tx.st();
                st.reserved.set(st.reserved.get() - 1);
                st.sent.set(st.sent.get() + 1);
                self.live = false;
                std::mem::forget(value);
            }
        }
        impl<T> Drop for Permit<'_, T> {
            fn drop(&mut self) {
                if self.live {
                    let st = self.tx.st();
                    st.reserved.set(st.reserved.get() - 1);
                    st.free.set(st.free.get() + 1);
                }
            }
        }

        /// receiving half: a scripted queue of three values of which the first `visible` have arrived (the harness
        /// raises it between polls through the shared `RecvCtl`); `closed` = all senders dropped, nothing more arrives.
        pub struct RecvCtl {
            pub visible: Cell<usize>,
            pub closed: Cell<bool>,
            pub received: Cell<usize>,
        }
        impl RecvCtl {
            pub fn new(visible: usize, closed: bool) -> Self {
                RecvCtl { visible: Cell::new(visible), closed: Cell::new(closed), received: Cell::new(0) }
            }
        }
        pub struct Receiver<T> {
            items: [Option<T>; 3],
            ctl: *const RecvCtl,
        }
        impl<T> Receiver<T> {
            pub fn model(items: [Option<T>; 3], ctl: &RecvCtl) -> Self {
                Receiver { items, ctl }
            }
            pub fn recv(&mut self) -> Recv<'_, T> {
                Recv { rx: self }
            }
        }
        pub struct Recv<'a, T> {
            rx: &'a mut Receiver<T>,
        }
        impl<T> Future for Recv<'_, T> {
            type Output = Option<T>;
            fn poll(self: Pin<&mut Self>, _cx: &mut Context<'_>) -> Poll<Self::Output> {
                let rx = &mut *self.get_mut().rx;
                let ctl = unsafe { &*rx.ctl };
                let head = ctl.received.get();
                if head < 3 && head < ctl.visible.get() {
                    let v = match head {
                        0 => rx.items[0].take(),
                        1 => rx.items[1].take(),
                        _ => rx.items[2].take(),
                    };
                    ctl.received.set(head + 1);
                    Poll::Ready(v)
                } else if ctl.closed.get() {
                    Poll::Ready(None)
                } else {
                    Poll::Pending
                }
            }
        }
    }
}

/// MODEL of `tokio::spawn`: there is no scheduler. Counts the calls. With `model_run_tasks(true)` the task is run
/// eagerly inside `spawn`: polled until it completes, at most MAX_TASK_POLLS times (one legal schedule - the task
/// shares nothing with its spawner but the channel counters); otherwise it is leaked un-polled (it keeps what it
/// owns). No allocation, no dynamic dispatch.
pub mod task {
    pub struct JoinHandle;
}
pub const MAX_TASK_POLLS: usize = 3;
static mut RUN_TASKS: bool = false;
static mut SPAWNED: usize = 0;
static mut COMPLETED: usize = 0;

pub fn spawn<F>(future: F) -> task::JoinHandle
where
    F: std::future::Future<Output = ()>,
{
    unsafe {
        SPAWNED += 1;
        if !RUN_TASKS {
            std::mem::forget(future);
            return task::JoinHandle;
        }
    }
    let mut future = std::pin::pin!(future);
    let mut cx = std::task::Context::from_waker(std::task::Waker::noop());
    let mut i = 0;
    while i < MAX_TASK_POLLS {
        if future.as_mut().poll(&mut cx).is_ready() {
            unsafe {
                COMPLETED += 1;
            }
            break;
        }
        i += 1;
    }
    task::JoinHandle
}
pub fn model_run_tasks(on: bool) {
    unsafe { RUN_TASKS = on }
}
pub fn model_spawned() -> usize {
    unsafe { SPAWNED }
}
pub fn model_completed() -> usize {
    unsafe { COMPLETED }
}

/// MODEL of `tokio::select!` for the form `pat = future => expr, ...` where no branch body uses `?`, `.await` or
/// `return` (true of `Worker::run_control_streams`): the branch futures are created, pinned and polled once per poll
/// of the enclosing future, in textual order (tokio picks a random order; with at most one branch ever ready the
/// order is immaterial); the first one that is ready wins and ALL branch futures are dropped when the select
/// completes or when the enclosing future is dropped - exactly tokio's documented behaviour for the losing branches.
#[macro_export]
macro_rules! select {
    ($($t:tt)*) => { $crate::__select_acc!(() $($t)*) };
}
#[doc(hidden)]
#[macro_export]
macro_rules! __select_acc {
    // done parsing: emit
    (($(($f:ident, $p:pat, $b:expr))*)) => {{
        ::std::future::poll_fn(|__cx| {
            $(
                if let ::std::task::Poll::Ready(__v) = ::std::future::Future::poll($f.as_mut(), __cx) {
                    let $p = __v;
                    return ::std::task::Poll::Ready($b);
                }
            )*
            ::std::task::Poll::Pending
        }).await
    }};
    (($($acc:tt)*) $p:pat = $e:expr => $b:expr, $($rest:tt)*) => {{
        let mut __fut = ::std::pin::pin!($e);
        $crate::__select_acc!(($($acc)* (__fut, $p, $b)) $($rest)*)
    }};
    (($($acc:tt)*) $p:pat = $e:expr => $b:expr) => {{
        let mut __fut = ::std::pin::pin!($e);
        $crate::__select_acc!(($($acc)* (__fut, $p, $b)))
    }};
}
