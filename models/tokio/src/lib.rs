//! ENVIRONMENT MODEL of the part of `tokio::sync::watch` used by driver/streams/settings.rs: a single-threaded
//! shared cell (last value wins). No wake-ups, no scheduling: only the stored value is observable.
pub mod sync {
    pub mod watch {
        use std::cell::{Ref, RefCell};
        use std::rc::Rc;

        pub struct Sender<T> {
            shared: Rc<RefCell<T>>,
        }
        pub struct Receiver<T> {
            shared: Rc<RefCell<T>>,
        }
        #[derive(Debug)]
        pub struct RecvError;

        pub fn channel<T>(init: T) -> (Sender<T>, Receiver<T>) {
            let shared = Rc::new(RefCell::new(init));
            (Sender { shared: shared.clone() }, Receiver { shared })
        }

        impl<T> Sender<T> {
            pub fn borrow(&self) -> Ref<'_, T> {
                self.shared.borrow()
            }
            pub fn send_replace(&self, value: T) -> T {
                self.shared.replace(value)
            }
            pub fn subscribe(&self) -> Receiver<T> {
                Receiver { shared: self.shared.clone() }
            }
        }

        impl<T> Receiver<T> {
            pub async fn changed(&mut self) -> Result<(), RecvError> {
                Ok(())
            }
            pub fn borrow(&self) -> Ref<'_, T> {
                self.shared.borrow()
            }
        }
    }
}
