//! ENVIRONMENT MODEL (not the real crate). //! Environment model of the `time` crate: instants and durations are whole seconds.
#[derive(Clone, Copy, PartialEq, Eq, PartialOrd, Ord, Debug)]
pub struct OffsetDateTime(i64);
#[derive(Debug)] pub struct ComponentRange;
impl OffsetDateTime {
    // time 0.3: valid years are -9999..=9999
    pub const MIN_TS: i64 = -377_705_116_800;
    pub const MAX_TS: i64 = 253_402_300_799;
    pub fn from_unix_timestamp(t: i64) -> Result<Self, ComponentRange> {
        if t < Self::MIN_TS || t > Self::MAX_TS { Err(ComponentRange) } else { Ok(Self(t)) }
    }
}
#[derive(Clone, Copy, PartialEq, Eq, PartialOrd, Ord, Debug)]
pub struct Duration(i64);
impl Duration {
    pub const fn weeks(w: i64) -> Self { Self(w * 604_800) }
    pub const fn days(d: i64) -> Self { Self(d * 86_400) }
    pub const fn hours(h: i64) -> Self { Self(h * 3_600) }
    pub const fn minutes(m: i64) -> Self { Self(m * 60) }
    pub const fn seconds(s: i64) -> Self { Self(s) }
    // truncating accessors, as in the `time` crate
    pub const fn whole_weeks(self) -> i64 { self.0 / 604_800 }
    pub const fn whole_days(self) -> i64 { self.0 / 86_400 }
    pub const fn whole_hours(self) -> i64 { self.0 / 3_600 }
    pub const fn whole_minutes(self) -> i64 { self.0 / 60 }
    pub const fn whole_seconds(self) -> i64 { self.0 }
}
impl core::ops::Sub for OffsetDateTime { type Output = Duration; fn sub(self, r: Self) -> Duration { Duration(self.0 - r.0) } }
