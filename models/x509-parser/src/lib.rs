//! ENVIRONMENT MODEL (not the real crate). //! Environment model of x509-parser: a certificate is (ok, not_before, not_after, alg, params) read
//! deterministically from the byte string handed to `from_der`.
pub mod oid_registry {
    #[derive(Clone, Copy, PartialEq, Eq, Debug)]
    pub struct Oid(pub u8);
    pub const OID_KEY_TYPE_EC_PUBLIC_KEY: Oid = Oid(1);
    pub const OID_EC_P256: Oid = Oid(10);
}
pub mod time {
    use ::time::OffsetDateTime;
    #[derive(Clone, Copy, PartialEq, Eq, PartialOrd, Ord, Debug)]
    pub struct ASN1Time { t: OffsetDateTime }
    impl ASN1Time {
        pub fn new(t: OffsetDateTime) -> Self { Self { t } }
    }
    impl core::ops::Sub<ASN1Time> for ASN1Time {
        type Output = Option<::time::Duration>;
        fn sub(self, rhs: ASN1Time) -> Option<::time::Duration> {
            if self.t > rhs.t { Some(self.t - rhs.t) } else { None }
        }
    }
}
pub mod certificate {
    use super::oid_registry::Oid;
    use super::time::ASN1Time;
    #[derive(Debug)] pub struct X509Error;
    pub struct Validity { pub not_before: ASN1Time, pub not_after: ASN1Time }
    pub struct AnyParam { pub kind: u8 }
    impl AnyParam { pub fn as_oid(&self) -> Result<Oid, X509Error> { if self.kind < 200 { Ok(Oid(self.kind)) } else { Err(X509Error) } } }
    pub struct AlgorithmIdentifier { pub algorithm: Oid, pub parameters: Option<AnyParam> }
    pub struct SubjectPublicKeyInfo { pub algorithm: AlgorithmIdentifier }
    pub struct X509Certificate<'a> { pub validity: Validity, pub subject_pki: SubjectPublicKeyInfo, pub raw: &'a [u8] }
    impl<'a> X509Certificate<'a> {
        pub fn validity(&self) -> &Validity { &self.validity }
        pub fn public_key(&self) -> &SubjectPublicKeyInfo { &self.subject_pki }
    }
    impl<'a> super::prelude::FromDer<'a> for X509Certificate<'a> {
        fn from_der(i: &'a [u8]) -> Result<(&'a [u8], Self), X509Error> {
            // serialisation of the model certificate: [ok, nb(8), na(8), alg, has_params, params, digest(32)] = 52 bytes
            if i.len() != 52 || i[0] != 1 { return Err(X509Error); }
            let nb = i64::from_be_bytes([i[1], i[2], i[3], i[4], i[5], i[6], i[7], i[8]]);
            let na = i64::from_be_bytes([i[9], i[10], i[11], i[12], i[13], i[14], i[15], i[16]]);
            let nb = match ::time::OffsetDateTime::from_unix_timestamp(nb) { Ok(t) => t, Err(_) => return Err(X509Error) };
            let na = match ::time::OffsetDateTime::from_unix_timestamp(na) { Ok(t) => t, Err(_) => return Err(X509Error) };
            let parameters = if i[18] == 1 { Some(AnyParam { kind: i[19] }) } else { None };
            Ok((&i[52..], X509Certificate {
                validity: Validity { not_before: ASN1Time::new(nb), not_after: ASN1Time::new(na) },
                subject_pki: SubjectPublicKeyInfo { algorithm: AlgorithmIdentifier { algorithm: Oid(i[17]), parameters } },
                raw: i,
            }))
        }
    }
}
pub mod prelude {
    pub trait FromDer<'a>: Sized { fn from_der(i: &'a [u8]) -> Result<(&'a [u8], Self), super::certificate::X509Error>; }
}
