//! ENVIRONMENT MODEL (not the real crate): an invertible byte code with the same API as httlib-huffman 0.3.4,
//! whose output may be shorter or longer than its input and whose decoder may fail. One bulk operation per
//! call (no per-byte pushes, which make CBMC unroll `RawVec::grow_one`).
//!   run of 3..=255 equal bytes  ->  [0x01, byte]        (strictly shorter: the real `encode_string` then sets H=1)
//!   anything else               ->  [0x00] ++ input      (longer: literal branch, H=0)
//! The real Huffman tables are outside every claim.
#[derive(Debug)]
pub struct EncoderError;
#[derive(Debug)]
pub struct DecoderError;
pub enum DecoderSpeed {
    OneBit,
    TwoBits,
    ThreeBits,
    FourBits,
    FiveBits,
}

pub fn encode(src: &[u8], dst: &mut Vec<u8>) -> Result<(), EncoderError> {
    let n = src.len();
    let mut same = n == 3;
    if same {
        same = src[1] == src[0] && src[2] == src[0];
    }
    if same {
        dst.extend_from_slice(&[0x01, src[0]]);
    } else {
        dst.push(0x00);
        dst.extend_from_slice(src);
    }
    Ok(())
}

pub fn decode(src: &[u8], dst: &mut Vec<u8>, _speed: DecoderSpeed) -> Result<(), DecoderError> {
    if src.is_empty() {
        return Err(DecoderError);
    }
    match src[0] {
        0x00 => {
            dst.extend_from_slice(&src[1..]);
            Ok(())
        }
        0x01 if src.len() == 2 => {
            dst.extend_from_slice(&[src[1], src[1], src[1]]);
            Ok(())
        }
        _ => Err(DecoderError),
    }
}
