//! ENVIRONMENT MODEL (not the real crate). //! Environment model of SHA-256: the digest of the model certificate is the 32 bytes it carries (any value possible, deterministic).
pub struct Sha256;
pub struct Output(pub [u8; 32]);
impl From<Output> for [u8; 32] { fn from(o: Output) -> Self { o.0 } }
pub trait Digest { fn digest(data: impl AsRef<[u8]>) -> Output; }
impl Digest for Sha256 {
    fn digest(data: impl AsRef<[u8]>) -> Output {
        let d = data.as_ref();
        let mut o = [0u8; 32];
        if d.len() == 52 { let mut i = 0; while i < 32 { o[i] = d[20 + i]; i += 1; } }
        Output(o)
    }
}
