//! ENVIRONMENT MODEL of the `tracing` macros: logging has no effect on any property; arguments are not evaluated
//! (format machinery forks states in CBMC).
#[macro_export]
macro_rules! debug { ($($t:tt)*) => {{}}; }
#[macro_export]
macro_rules! trace { ($($t:tt)*) => {{}}; }
#[macro_export]
macro_rules! info { ($($t:tt)*) => {{}}; }
#[macro_export]
macro_rules! warn { ($($t:tt)*) => {{}}; }
#[macro_export]
macro_rules! error { ($($t:tt)*) => {{}}; }
