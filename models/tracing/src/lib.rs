//! ENVIRONMENT MODEL of the `tracing` macros: logging has no effect on any property; arguments are not evaluated
//! (format machinery forks states in CBMC).
#[macro_export]
macro_rules! debug { ($($t:tt)*) => {{}}; }
#[macro_export]
macro_rules! trace { ($($t:tt)*) => {{}}; }
#[macro_export]
macro_rules! info { ($($t:tt)*) => {{}}; }
#[macro_export]
macro_rules! warn { ($($t:tt)*) => {{}}; }
#[macro_export]
macro_rules! error { ($($t:tt)*) => {{}}; }
/// spans are not modelled: `debug_span!` yields a unit value, `Instrument::instrument` is the identity
#[macro_export]
macro_rules! debug_span { ($($t:tt)*) => { $crate::Span }; }
pub struct Span;
pub trait Instrument: Sized {
    fn instrument(self, _span: Span) -> Self {
        self
    }
}
impl<T: Sized> Instrument for T {}
