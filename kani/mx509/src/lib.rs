//! C10 — decision logic of certificate-hash pinning. The function body is the repository's (src/gen/sliced.rs is
//! regenerated from /repo/wtransport/src/tls.rs on every run); its environment (X.509 parser, clock arithmetic,
//! SHA-256, hash set) is modelled. The prelude below reproduces the imports of tls.rs / tls::client that the
//! sliced item relies on.
#![allow(unused, clippy::all)]
use rustls::client::danger::ServerCertVerified;
use rustls_pki_types::CertificateDer;
use sha2::Digest;
use sha2::Sha256;
use x509_parser::certificate::X509Certificate;
use x509_parser::prelude::FromDer;

/// value type of tls.rs (`pub struct Sha256Digest([u8; 32])`)
#[derive(Debug, Clone, Eq, Hash, PartialEq, PartialOrd, Ord)]
pub struct Sha256Digest([u8; 32]);

/// MODEL of `BTreeSet<Sha256Digest>` with at most 2 members
pub struct ModelSet {
    pub items: [Option<Sha256Digest>; 2],
}
impl ModelSet {
    pub fn contains(&self, d: &Sha256Digest) -> bool {
        let mut i = 0;
        while i < 2 {
            if let Some(x) = &self.items[i] {
                if x == d {
                    return true;
                }
            }
            i += 1;
        }
        false
    }
}

pub struct ServerHashVerification {
    hashes: ModelSet,
}

// `impl ServerHashVerification { const SELF_MAX_VALIDITY ..; pub fn verify_server_cert(..) {<sliced body>} }`
include!("gen/sliced.rs");

#[cfg(kani)]
mod vh;
