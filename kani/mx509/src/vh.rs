//! C10 harnesses over the sliced verify_server_cert

use super::*;

fn decide(mutate_none: bool) {
    let cert: [u8; 52] = kani::any();
    let now: u64 = kani::any();
    kani::assume(now <= time::OffsetDateTime::MAX_TS as u64);
    let h0: [u8; 32] = kani::any();
    let h1: [u8; 32] = kani::any();
    let n: u8 = kani::any();
    kani::assume(n <= 2);
    let v = ServerHashVerification {
        hashes: ModelSet {
            items: [
                if n >= 1 { Some(Sha256Digest(h0)) } else { None },
                if n >= 2 { Some(Sha256Digest(h1)) } else { None },
            ],
        },
    };
    let der = CertificateDer::from(&cert[..]);
    let name = rustls_pki_types::ServerName::try_from("localhost").unwrap();
    let r = v.verify_server_cert(
        &der,
        &[],
        &name,
        &[],
        rustls_pki_types::UnixTime::since_unix_epoch(core::time::Duration::from_secs(now)),
    );

    // independent oracle over the model certificate's fields
    let ok = cert[0] == 1;
    let nb = i64::from_be_bytes([cert[1], cert[2], cert[3], cert[4], cert[5], cert[6], cert[7], cert[8]]);
    let na = i64::from_be_bytes([cert[9], cert[10], cert[11], cert[12], cert[13], cert[14], cert[15], cert[16]]);
    let in_range = |t: i64| t >= time::OffsetDateTime::MIN_TS && t <= time::OffsetDateTime::MAX_TS;
    let parsed = ok && in_range(nb) && in_range(na);
    let mut digest = [0u8; 32];
    let mut i = 0;
    while i < 32 {
        digest[i] = cert[20 + i];
        i += 1;
    }
    let pinned = (n >= 1 && digest == h0) || (n >= 2 && digest == h1);
    let nowi = now as i64;
    // the zero-length window (not_after == not_before) is refused by the code and not judged here
    kani::assume(!(parsed && na == nb));
    let within = parsed && nb <= nowi && nowi <= na;
    let short = parsed && na > nb && (na - nb) <= 14 * 86_400;
    let p256 = cert[17] == 1 && cert[18] == 1 && cert[19] == 10;
    let expect = within && short && p256 && pinned;
    assert!(r.is_ok() == expect, "pinning decision differs from: hash pinned AND now within validity AND validity <= 14 days AND ECDSA P-256");
    if let Err(e) = &r {
        // documented error kinds
        let kind_ok = match e {
            rustls::Error::InvalidCertificate(rustls::CertificateError::BadEncoding) => !parsed,
            rustls::Error::InvalidCertificate(rustls::CertificateError::NotValidYet) => parsed && nowi < nb,
            rustls::Error::InvalidCertificate(rustls::CertificateError::Expired) => parsed && nowi >= nb && nowi > na,
            rustls::Error::InvalidCertificate(rustls::CertificateError::UnknownIssuer) => within && !(short && p256 && pinned),
            _ => false,
        };
        assert!(kind_ok, "refusal reported with an unexpected error kind");
    }
    kani::cover!(r.is_ok(), "accepted");
    kani::cover!(r.is_ok() && na - nb == 14 * 86_400, "accepted with a window of exactly 14 days");
    kani::cover!(r.is_ok() && nowi == na, "accepted at the last second of validity");
    kani::cover!(r.is_ok() && nowi == nb, "accepted at the first second of validity");
    kani::cover!(r.is_ok() && n == 2 && digest == h1, "second pinned hash");
    kani::cover!(!r.is_ok() && within && p256 && pinned && na - nb == 14 * 86_400 + 1, "refused one second over 14 days");
    core::mem::forget(r);
}

// @h props=C10 tier=quick t=1200 sub=pinning-decision
// @fn wtransport/src/tls.rs ServerHashVerification::verify_server_cert ServerHashVerification::SELF_MAX_VALIDITY (sliced; real rustls + rustls-pki-types)
// @bound every 'now' in time's representable range; every not_before/not_after (i64 seconds); key algorithm id and parameter id any byte (EC/RSA/Ed25519/other; P-256/P-384/absent/not-an-OID); digest any 32 bytes; pinned sets of 0..=2 arbitrary hashes
// @oracle accept <=> parse ok AND not_before <= now <= not_after AND 0 < not_after - not_before <= 14 days (to the second) AND algorithm = EC AND curve = P-256 AND digest in the set; refusals carry the documented kind (BadEncoding, NotValidYet, Expired, UnknownIssuer)
// @assume model x509-parser (certificate = deterministic function of the DER bytes: ok flag, two instants, two identifier bytes), model time (whole seconds; ASN1Time a-b = Some iff a > b as in x509-parser 0.18), model sha2 (digest = 32 bytes carried by the model certificate), model hash set (<= 2 members); zero-length validity window assumed away
// @outside fidelity of x509-parser / time / sha2; wiring in config.rs / build_default_tls_config; any handshake; default WebPKI policy
#[kani::proof]
#[kani::unwind(34)]
fn x_pinning_decision() {
    decide(false)
}

// @h props=C10 tier=quick t=600 expect=fail sub=twin
// @fn wtransport/src/tls.rs ServerHashVerification::verify_server_cert
// @bound twin: claims no certificate is ever accepted; must be refuted
#[kani::proof]
#[kani::unwind(34)]
fn x_twin_must_fail() {
    let cert: [u8; 52] = kani::any();
    let now: u64 = kani::any();
    kani::assume(now <= time::OffsetDateTime::MAX_TS as u64);
    let h0: [u8; 32] = kani::any();
    let v = ServerHashVerification { hashes: ModelSet { items: [Some(Sha256Digest(h0)), None] } };
    let der = CertificateDer::from(&cert[..]);
    let name = rustls_pki_types::ServerName::try_from("localhost").unwrap();
    let r = v.verify_server_cert(&der, &[], &name, &[], rustls_pki_types::UnixTime::since_unix_epoch(core::time::Duration::from_secs(now)));
    assert!(r.is_err(), "twin: wrong oracle");
    core::mem::forget(r);
}
