//! E1 harnesses: Kani over the real `wtransport` crate (quinn, rustls, ring compiled as dependencies).
#![allow(unused, clippy::all)]
#![cfg(kani)]

use wtransport::error::{ConnectionError, StreamReadError, StreamWriteError};
use wtransport::quinn;
use wtransport::verif_hooks as h;
use wtransport::VarInt;
use wtransport_proto::ids::{SessionId, StreamId};

const VMAX: u64 = (1u64 << 62) - 1;

fn any_session_id() -> SessionId {
    let q: u64 = kani::any();
    kani::assume(q <= (1u64 << 60) - 1);
    SessionId::try_from_session_stream(StreamId::new(VarInt::try_from_u64(q << 2).unwrap())).unwrap()
}

fn ref_varint_len(v: u64) -> usize {
    if v < (1 << 6) {
        1
    } else if v < (1 << 14) {
        2
    } else if v < (1 << 30) {
        4
    } else {
        8
    }
}

fn ref_varint_put(v: u64, out: &mut [u8]) -> usize {
    let n = ref_varint_len(v);
    let tag: u64 = match n {
        1 => 0,
        2 => 1,
        4 => 2,
        _ => 3,
    };
    let word = v | (tag << (8 * n as u64 - 2));
    let mut i = 0;
    while i < n {
        out[i] = (word >> (8 * (n - 1 - i))) as u8;
        i += 1;
    }
    n
}

// @h props=C06 tier=quick t=600 sub=stream-error-conversions
// @fn wtransport/src/driver/streams/mod.rs <StreamWriteError as From<quinn::WriteError>>::from <StreamReadError as From<quinn::ReadError>>::from; wtransport/src/driver/utils.rs varint_q2w varint_w2q streamid_q2w
// @bound every 62-bit code; every variant of quinn::ReadError / quinn::WriteError that carries no ConnectionError payload, plus ConnectionLost(TimedOut|LocallyClosed|Reset)
// @oracle Stopped(c) -> Stopped(c), Reset(c) -> Reset(c) with the identical 62-bit value; ConnectionLost|ClosedStream -> NotConnected; ZeroRttRejected|IllegalOrderedRead -> QuicProto; varint conversions are the identity on [0,2^62) in both directions and never reach their debug_assert
// @outside that quinn delivers the peer's code; the phases of a live stream
#[kani::proof]
fn c06_stream_error_conversions() {
    let c: u64 = kani::any();
    kani::assume(c <= VMAX);
    let qc = quinn::VarInt::from_u64(c).unwrap();
    // conversions
    let w = h::varint_q2w(qc);
    assert!(w.into_inner() == c, "varint_q2w changed the value");
    assert!(h::varint_w2q(w).into_inner() == c, "varint_w2q changed the value");
    let e: StreamReadError = quinn::ReadError::Reset(qc).into();
    match e {
        StreamReadError::Reset(v) => assert!(v.into_inner() == c, "reset code altered"),
        _ => assert!(false, "Reset(c) not mapped to Reset"),
    }
    let e: StreamWriteError = quinn::WriteError::Stopped(qc).into();
    match e {
        StreamWriteError::Stopped(v) => assert!(v.into_inner() == c, "stop code altered"),
        _ => assert!(false, "Stopped(c) not mapped to Stopped"),
    }
    assert!(matches!(StreamReadError::from(quinn::ReadError::ClosedStream), StreamReadError::NotConnected));
    assert!(matches!(StreamReadError::from(quinn::ReadError::IllegalOrderedRead), StreamReadError::QuicProto));
    assert!(matches!(StreamReadError::from(quinn::ReadError::ZeroRttRejected), StreamReadError::QuicProto));
    assert!(matches!(StreamWriteError::from(quinn::WriteError::ClosedStream), StreamWriteError::NotConnected));
    assert!(matches!(StreamWriteError::from(quinn::WriteError::ZeroRttRejected), StreamWriteError::QuicProto));
    let sel: u8 = kani::any();
    let lost = || match sel % 3 {
        0 => quinn::ConnectionError::TimedOut,
        1 => quinn::ConnectionError::LocallyClosed,
        _ => quinn::ConnectionError::Reset,
    };
    assert!(matches!(StreamReadError::from(quinn::ReadError::ConnectionLost(lost())), StreamReadError::NotConnected));
    assert!(matches!(StreamWriteError::from(quinn::WriteError::ConnectionLost(lost())), StreamWriteError::NotConnected));
    kani::cover!(c == VMAX, "largest code");
    kani::cover!(c == 0, "zero");
}

// @h props=C06,C17 tier=quick t=600 sub=streamid-conversion
// @fn wtransport/src/driver/utils.rs streamid_q2w
// @bound every quinn::StreamId (initiator x direction x 60-bit index)
// @oracle value = index<<2 | dir<<1 | initiator (RFC 9000 §2.1); classification of the converted id matches the quinn side; never reaches the debug_assert
#[kani::proof]
fn c06_streamid_q2w() {
    let idx: u64 = kani::any();
    kani::assume(idx < (1u64 << 60));
    let server: bool = kani::any();
    let uni: bool = kani::any();
    let q = quinn::StreamId::new(
        if server { quinn::Side::Server } else { quinn::Side::Client },
        if uni { quinn::Dir::Uni } else { quinn::Dir::Bi },
        idx,
    );
    let w = h::streamid_q2w(q);
    assert!(w.into_u64() == (idx << 2) | ((uni as u64) << 1) | server as u64, "stream id value altered");
    assert!(w.is_bidirectional() == !uni && w.is_client_initiated() == !server);
    match SessionId::try_from_session_stream(w) {
        Ok(s) => assert!(!uni && !server && s.into_u64() == idx << 2),
        Err(_) => assert!(uni || server),
    }
    kani::cover!(idx == (1u64 << 60) - 1, "largest index");
}

fn app_close<const R: usize>() {
    let c: u64 = kani::any();
    kani::assume(c <= VMAX);
    let qc = quinn::VarInt::from_u64(c).unwrap();
    let r: [u8; R] = kani::any();
    let len: usize = kani::any();
    kani::assume(len <= R);
    let close = quinn::ApplicationClose { error_code: qc, reason: bytes::Bytes::copy_from_slice(&r[..len]) };
    let e: ConnectionError = quinn::ConnectionError::ApplicationClosed(close).into();
    match &e {
        ConnectionError::ApplicationClosed(a) => {
            assert!(a.code().into_inner() == c, "application close code altered");
            assert!(a.reason().len() == len, "reason length altered");
            let mut i = 0;
            while i < len {
                assert!(a.reason()[i] == r[i], "reason bytes altered");
                i += 1;
            }
            kani::cover!(len == R && c == VMAX, "largest code, full reason");
            kani::cover!(len == 0, "empty reason");
        }
        _ => assert!(false, "peer application close misattributed"),
    }
    core::mem::forget(e);
}

// @h props=C04,C09 tier=quick t=1200 sub=quic-app-close
// @fn wtransport/src/error.rs <ConnectionError as From<quinn::ConnectionError>>::from ApplicationClose::{code,reason}
// @bound every 62-bit close code; reason bytes of length 0..=4 (not required to be UTF-8)
// @oracle ApplicationClosed{code,reason} -> ConnectionError::ApplicationClosed with the same code and reason bytes
// @outside reasons > 4 bytes (thorough: 8)
#[kani::proof]
#[kani::unwind(6)]
fn c04_quic_application_close_r4() {
    app_close::<4>()
}

// @h props=C04 tier=thorough t=3000 sub=quic-app-close
// @fn wtransport/src/error.rs <ConnectionError as From<quinn::ConnectionError>>::from
// @bound every 62-bit close code; reason bytes of length 0..=8
// @oracle as c04_quic_application_close_r4
#[kani::proof]
#[kani::unwind(10)]
fn c04_quic_application_close_r8() {
    app_close::<8>()
}

// @h props=C04,C09 tier=quick t=600 sub=quic-cause-mapping
// @fn wtransport/src/error.rs <ConnectionError as From<quinn::ConnectionError>>::from
// @bound the payload-free quinn causes (VersionMismatch, Reset, TimedOut, LocallyClosed, CidsExhausted)
// @oracle each cause maps to its namesake; never to ApplicationClosed / a different cause
#[kani::proof]
fn c04_quic_cause_mapping() {
    assert!(matches!(ConnectionError::from(quinn::ConnectionError::TimedOut), ConnectionError::TimedOut));
    assert!(matches!(ConnectionError::from(quinn::ConnectionError::LocallyClosed), ConnectionError::LocallyClosed));
    assert!(matches!(ConnectionError::from(quinn::ConnectionError::CidsExhausted), ConnectionError::CidsExhausted));
    let e = ConnectionError::from(quinn::ConnectionError::Reset);
    assert!(matches!(e, ConnectionError::QuicProto(_)));
    core::mem::forget(e);
    let e = ConnectionError::from(quinn::ConnectionError::VersionMismatch);
    assert!(matches!(e, ConnectionError::QuicProto(_)));
    core::mem::forget(e);
    kani::cover!(true, "reached");
}

/// a valid session id whose quarter-stream-id varint has exactly 1 << CLS bytes
fn session_id_of_class<const CLS: u8>() -> SessionId {
    let q: u64 = kani::any();
    match CLS {
        0 => kani::assume(q < (1 << 6)),
        1 => kani::assume(q >= (1 << 6) && q < (1 << 14)),
        2 => kani::assume(q >= (1 << 14) && q < (1 << 30)),
        _ => kani::assume(q >= (1 << 30) && q <= (1u64 << 60) - 1),
    }
    SessionId::try_from_session_stream(StreamId::new(VarInt::try_from_u64(q << 2).unwrap())).unwrap()
}

/// the real `Datagram::write` allocates `vec![0; header + payload]`: the quarter-id length class and the payload length
/// are fixed per instance so that this allocation has a concrete size (a symbolic-size allocation exhausts 16 GB)
fn datagram_roundtrip<const CLS: u8, const LEN: usize, const PAYLOAD_FN: bool>() {
    let sid = session_id_of_class::<CLS>();
    let qv = sid.into_u64() >> 2;
    let p: [u8; LEN] = kani::any();
    let len = LEN;
    let d = h::datagram_write(sid, &p[..]);
    // application view of an outgoing datagram: payload only
    assert!(d.len() == len, "Deref exposes framing bytes");
    assert!(d.session_id() == sid);
    let hs = h::datagram_header_size(sid);
    assert!(hs == ref_varint_len(qv) && hs == 1usize << CLS, "header_size differs from the quarter-stream-id varint length");
    let wire = h::datagram_into_quic_bytes(d);
    // size identity: this is what makes `payload <= max_datagram_size` <=> quinn accepts
    assert!(wire.len() == hs + len, "wire length != header_size + payload length");
    let mut refb = [0u8; 8];
    let rn = ref_varint_put(qv, &mut refb);
    let mut i = 0;
    while i < rn {
        assert!(wire[i] == refb[i], "quarter stream id prefix differs from the reference encoding");
        i += 1;
    }
    let back = h::datagram_read(wire).unwrap();
    assert!(back.session_id() == sid, "session id changed in round trip");
    assert!(back.len() == len, "payload length changed");
    let mut i = 0;
    while i < len {
        assert!(back[i] == p[i], "payload byte altered");
        i += 1;
    }
    if PAYLOAD_FN {
        // `payload()` goes through `Bytes::slice` (reference-counted clone): checked in dedicated instances only
        let pl = back.payload();
        assert!(pl.len() == len);
        let mut i = 0;
        while i < len {
            assert!(pl[i] == p[i], "payload() differs from the sent bytes");
            i += 1;
        }
        core::mem::forget(pl);
    }
    kani::cover!(true, "round trip completed");
    core::mem::forget(back);
}

macro_rules! dgram_rt {
    ($name:ident, $cls:literal, $len:literal, $pl:literal) => {
        #[kani::proof]
        #[kani::unwind(10)]
        fn $name() {
            datagram_roundtrip::<$cls, $len, $pl>()
        }
    };
}

// @h props=C03,C16,C17 tier=quick t=1800 mem=20 sub=datagram-roundtrip
// @fn wtransport/src/datagram.rs Datagram::{write,read,payload,deref,session_id,header_size,into_quic_bytes}; wtransport-proto/src/datagram.rs Datagram::{new,write,read,write_size,header_size}
// @bound every session id whose quarter id is a 1-byte varint; payload of exactly 3 symbolic bytes; real bytes::Bytes
// @oracle read(write(sid,p)): same session id, payload byte-identical through Deref; wire == varint(sid/4)||p (reference encoder); wire length == header_size(sid) + |p|; no framing byte visible
// @outside payload lengths other than the instance's (instances: 0, 3 quick; 1, 8 thorough); loss/reordering/duplication (quinn)
dgram_rt!(c03_datagram_roundtrip_id1_p3, 0, 3, false);

// @h props=C03,C16,C17 tier=quick t=1800 mem=20 sub=datagram-roundtrip
// @fn wtransport/src/datagram.rs Datagram::{write,read,payload,deref,session_id,header_size,into_quic_bytes}
// @bound every session id whose quarter id is an 8-byte varint (2^30 <= q < 2^60); payload of exactly 3 symbolic bytes
// @oracle as c03_datagram_roundtrip_id1_p3
dgram_rt!(c03_datagram_roundtrip_id8_p3, 3, 3, false);

// @h props=C03,C16 tier=quick t=1800 mem=20 sub=datagram-roundtrip
// @fn wtransport/src/datagram.rs Datagram::{write,read,payload,deref}
// @bound every session id whose quarter id is a 2-byte varint; empty payload
// @oracle as c03_datagram_roundtrip_id1_p3
dgram_rt!(c03_datagram_roundtrip_id2_p0, 1, 0, false);

// @h props=C03 tier=thorough t=3600 mem=24 sub=datagram-roundtrip
// @fn wtransport/src/datagram.rs Datagram::{write,read,payload,deref}
// @bound every session id whose quarter id is a 4-byte varint; payload of exactly 8 symbolic bytes
// @oracle as c03_datagram_roundtrip_id1_p3
dgram_rt!(c03_datagram_roundtrip_id4_p8, 2, 8, false);

// @h props=C03 tier=thorough t=3600 mem=24 sub=datagram-roundtrip
// @fn wtransport/src/datagram.rs Datagram::{write,read,payload,deref}
// @bound every session id whose quarter id is an 8-byte varint; payload of exactly 1 symbolic byte
// @oracle as c03_datagram_roundtrip_id1_p3
dgram_rt!(c03_datagram_roundtrip_id8_p1, 3, 1, false);

// (an instance reading the payload through `Datagram::payload()` - Bytes::slice promoting a Vec-backed buffer to the
// shared representation - ran out of memory at 25 GB; `payload()` is decided over statically backed Bytes in
// mdrv::a_driver_receive_datagram instead)

// @h props=C03,C17,C11 tier=quick t=1800 mem=20 sub=datagram-receive covers=any
// @fn wtransport/src/datagram.rs Datagram::{read,payload,deref,session_id}
// @bound every received QUIC datagram of exactly 0 bytes (real bytes::Bytes; one harness per length so that the allocation is concrete: lengths 0, 1, 9 quick; 2, 5, 10 thorough)
// @oracle total; Ok <=> a complete quarter id q <= 2^60-1 leads; session id == 4q (a client-initiated bidirectional stream id); payload == exact suffix; otherwise H3_DATAGRAM_ERROR
#[kani::proof]
#[kani::unwind(12)]
fn c03_datagram_receive_len0() {
    let b: [u8; 10] = kani::any();
    receive_check::<0>(&b)
}

// @h props=C03,C17,C11 tier=quick t=1800 mem=20 sub=datagram-receive covers=any
// @fn wtransport/src/datagram.rs Datagram::{read,payload,deref,session_id}
// @bound every received QUIC datagram of exactly 1 bytes (real bytes::Bytes; one harness per length so that the allocation is concrete: lengths 0, 1, 9 quick; 2, 5, 10 thorough)
// @oracle total; Ok <=> a complete quarter id q <= 2^60-1 leads; session id == 4q (a client-initiated bidirectional stream id); payload == exact suffix; otherwise H3_DATAGRAM_ERROR
#[kani::proof]
#[kani::unwind(12)]
fn c03_datagram_receive_len1() {
    let b: [u8; 10] = kani::any();
    receive_check::<1>(&b)
}

// @h props=C03,C17,C11 tier=quick t=1800 mem=20 sub=datagram-receive covers=any
// @fn wtransport/src/datagram.rs Datagram::{read,payload,deref,session_id}
// @bound every received QUIC datagram of exactly 9 bytes (real bytes::Bytes; one harness per length so that the allocation is concrete: lengths 0, 1, 9 quick; 2, 5, 10 thorough)
// @oracle total; Ok <=> a complete quarter id q <= 2^60-1 leads; session id == 4q (a client-initiated bidirectional stream id); payload == exact suffix; otherwise H3_DATAGRAM_ERROR
#[kani::proof]
#[kani::unwind(12)]
fn c03_datagram_receive_len9() {
    let b: [u8; 10] = kani::any();
    receive_check::<9>(&b)
}

// @h props=C03,C17,C11 tier=thorough t=1800 mem=20 sub=datagram-receive covers=any
// @fn wtransport/src/datagram.rs Datagram::{read,payload,deref,session_id}
// @bound every received QUIC datagram of exactly 2 bytes (real bytes::Bytes; one harness per length so that the allocation is concrete: lengths 0, 1, 9 quick; 2, 5, 10 thorough)
// @oracle total; Ok <=> a complete quarter id q <= 2^60-1 leads; session id == 4q (a client-initiated bidirectional stream id); payload == exact suffix; otherwise H3_DATAGRAM_ERROR
#[kani::proof]
#[kani::unwind(12)]
fn c03_datagram_receive_len2() {
    let b: [u8; 10] = kani::any();
    receive_check::<2>(&b)
}

// @h props=C03,C17,C11 tier=thorough t=1800 mem=20 sub=datagram-receive covers=any
// @fn wtransport/src/datagram.rs Datagram::{read,payload,deref,session_id}
// @bound every received QUIC datagram of exactly 5 bytes (real bytes::Bytes; one harness per length so that the allocation is concrete: lengths 0, 1, 9 quick; 2, 5, 10 thorough)
// @oracle total; Ok <=> a complete quarter id q <= 2^60-1 leads; session id == 4q (a client-initiated bidirectional stream id); payload == exact suffix; otherwise H3_DATAGRAM_ERROR
#[kani::proof]
#[kani::unwind(12)]
fn c03_datagram_receive_len5() {
    let b: [u8; 10] = kani::any();
    receive_check::<5>(&b)
}

// @h props=C03,C17,C11 tier=thorough t=1800 mem=20 sub=datagram-receive covers=any
// @fn wtransport/src/datagram.rs Datagram::{read,payload,deref,session_id}
// @bound every received QUIC datagram of exactly 10 bytes (real bytes::Bytes; one harness per length so that the allocation is concrete: lengths 0, 1, 9 quick; 2, 5, 10 thorough)
// @oracle total; Ok <=> a complete quarter id q <= 2^60-1 leads; session id == 4q (a client-initiated bidirectional stream id); payload == exact suffix; otherwise H3_DATAGRAM_ERROR
#[kani::proof]
#[kani::unwind(12)]
fn c03_datagram_receive_len10() {
    let b: [u8; 10] = kani::any();
    receive_check::<10>(&b)
}

fn receive_check<const LEN: usize>(b: &[u8; 10]) {
    let len = LEN;
    let wire = bytes::Bytes::copy_from_slice(&b[..LEN]);
    let got = h::datagram_read(wire);
    // reference varint decode
    let refd = if len == 0 {
        None
    } else {
        let n = 1usize << (b[0] >> 6);
        if len < n {
            None
        } else {
            let mut v = (b[0] & 0x3f) as u64;
            let mut i = 1;
            while i < n {
                v = (v << 8) | b[i] as u64;
                i += 1;
            }
            Some((v, n))
        }
    };
    match (got, refd) {
        (Ok(d), Some((q, n))) => {
            assert!(q <= (1u64 << 60) - 1, "quarter stream id out of range accepted");
            assert!(d.session_id().into_u64() == q << 2, "wrong session id");
            assert!(d.session_id().into_u64() & 3 == 0);
            assert!(d.len() == len - n, "payload is not the suffix");
            let mut i = 0;
            while i < len - n {
                assert!(d[i] == b[n + i], "payload byte altered");
                i += 1;
            }
            kani::cover!(n == 8, "8-byte quarter id");
            kani::cover!(len == n, "empty payload");
            kani::cover!(len > n, "non-empty payload");
            core::mem::forget(d);
        }
        (Err(e), Some((q, _))) => {
            assert!(q > (1u64 << 60) - 1, "valid datagram refused");
            assert!(e.to_code().into_inner() == 0x33);
            kani::cover!(true, "out-of-range quarter id refused");
        }
        (Err(e), None) => {
            assert!(e.to_code().into_inner() == 0x33);
            kani::cover!(len == 0, "empty datagram refused");
        }
        (Ok(_), None) => assert!(false, "datagram without a complete quarter stream id accepted"),
    }
}

// @h props=C20 tier=quick t=600 sub=bind-plan
// @fn wtransport/src/config.rs IpBindConfig::{into_ip,into_dual_stack_config} ServerConfigBuilder::{with_bind_default,with_bind_config,with_bind_address,with_bind_address_v6} ClientConfigBuilder::{with_bind_default,with_bind_config,with_bind_address,with_bind_address_v6} <BindAddressConfig as From<SocketAddr>>::from
// @bound all six IpBindConfig presets and the default, every port (2^16), server and client builders
// @oracle documented table: LocalV4 -> 127.0.0.1 / OS default; LocalV6 -> ::1 / v6-only; LocalDual -> ::1 / dual; InAddrAnyV4 -> 0.0.0.0 / OS default; InAddrAnyV6 -> :: / v6-only; InAddrAnyDual -> :: / dual; default == InAddrAnyDual; port preserved (server) / 0 (client)
// @outside BindAddressConfig::bind_socket (socket2 syscalls), TLS/ALPN, keep-alive, migration, reload_config: not encodable
#[kani::proof]
fn c20_bind_plan() {
    use std::net::{IpAddr, Ipv4Addr, Ipv6Addr, SocketAddr};
    use wtransport::config::IpBindConfig;
    let port: u16 = kani::any();
    let sel: u8 = kani::any();
    kani::assume(sel < 7);
    let cfg = match sel {
        0 => Some(IpBindConfig::LocalV4),
        1 => Some(IpBindConfig::LocalV6),
        2 => Some(IpBindConfig::LocalDual),
        3 => Some(IpBindConfig::InAddrAnyV4),
        4 => Some(IpBindConfig::InAddrAnyV6),
        5 => Some(IpBindConfig::InAddrAnyDual),
        _ => None,
    };
    let (ip, v6only): (IpAddr, Option<bool>) = match sel {
        0 => (IpAddr::V4(Ipv4Addr::new(127, 0, 0, 1)), None),
        1 => (IpAddr::V6(Ipv6Addr::new(0, 0, 0, 0, 0, 0, 0, 1)), Some(true)),
        2 => (IpAddr::V6(Ipv6Addr::new(0, 0, 0, 0, 0, 0, 0, 1)), Some(false)),
        3 => (IpAddr::V4(Ipv4Addr::new(0, 0, 0, 0)), None),
        4 => (IpAddr::V6(Ipv6Addr::new(0, 0, 0, 0, 0, 0, 0, 0)), Some(true)),
        _ => (IpAddr::V6(Ipv6Addr::new(0, 0, 0, 0, 0, 0, 0, 0)), Some(false)),
    };
    match h::config::server_bind_plan(cfg, port) {
        Some((addr, v)) => {
            assert!(addr.ip() == ip, "server bind address differs from the documented preset");
            assert!(addr.port() == port, "listening port altered");
            assert!(v == v6only, "dual-stack mode differs from the documented preset");
            if let SocketAddr::V6(a6) = addr {
                assert!(a6.flowinfo() == 0 && a6.scope_id() == 0);
            }
        }
        None => assert!(false, "preset produced a socket config"),
    }
    match h::config::client_bind_plan(cfg) {
        Some((addr, v)) => {
            assert!(addr.ip() == ip, "client bind address differs from the documented preset");
            assert!(addr.port() == 0, "client port must be OS-chosen");
            assert!(v == v6only, "client dual-stack mode differs from the documented preset");
        }
        None => assert!(false),
    }
    kani::cover!(sel == 6 && port == 65535, "default preset, port 65535");
    kani::cover!(sel == 1, "LocalV6");
}

// @h props=C20 tier=quick t=600 sub=bind-address
// @fn wtransport/src/config.rs ServerConfigBuilder::with_bind_address <BindAddressConfig as From<SocketAddr>>::from
// @bound every IPv4 / IPv6 socket address (address bits, port, flowinfo, scope id symbolic)
// @oracle the address is kept bit-exact; explicit addresses leave the dual-stack mode to the OS default
#[kani::proof]
fn c20_bind_address() {
    use std::net::{Ipv4Addr, Ipv6Addr, SocketAddr, SocketAddrV4, SocketAddrV6};
    let v6: bool = kani::any();
    let port: u16 = kani::any();
    let addr = if v6 {
        let a: [u16; 8] = kani::any();
        SocketAddr::V6(SocketAddrV6::new(Ipv6Addr::new(a[0], a[1], a[2], a[3], a[4], a[5], a[6], a[7]), port, kani::any(), kani::any()))
    } else {
        let a: [u8; 4] = kani::any();
        SocketAddr::V4(SocketAddrV4::new(Ipv4Addr::new(a[0], a[1], a[2], a[3]), port))
    };
    match h::config::server_bind_address_plan(addr) {
        Some((got, v)) => {
            assert!(got == addr, "explicit bind address altered");
            assert!(v.is_none(), "explicit address must not force a dual-stack mode");
        }
        None => assert!(false),
    }
    kani::cover!(v6, "v6");
    kani::cover!(!v6, "v4");
}

// @h props=C03,C04,C06,C20 tier=quick t=900 expect=fail sub=twin
// @fn wtransport/src/driver/utils.rs varint_q2w
// @bound twin: claims codes never exceed 2^32; must be refuted
#[kani::proof]
fn wt_twin_must_fail() {
    let c: u64 = kani::any();
    kani::assume(c <= VMAX);
    let w = h::varint_q2w(quinn::VarInt::from_u64(c).unwrap());
    assert!(w.into_inner() < (1u64 << 32), "twin: wrong oracle");
}
