//! ENVIRONMENT MODEL of std::collections::HashMap (hashbrown's SIMD probing is a wall for CBMC):
//! fixed-capacity association list with the API subset the crate uses. Never allocates.

//! fixed-capacity association-list model of std::collections::HashMap (API subset used by the crate)
use std::borrow::Borrow;
/// bound of the model: at most CAP distinct keys (insertion beyond it is assumed away and stated in the evidence)
pub const CAP: usize = 6;
#[derive(Clone, Debug)]
pub struct HashMap<K, V> { items: [Option<(K, V)>; CAP], n: usize }
impl<K: Eq, V> HashMap<K, V> {
    pub fn new() -> Self { Self { items: [const { None }; CAP], n: 0 } }
    pub fn len(&self) -> usize { self.n }
    fn pos<Q: ?Sized + Eq>(&self, k: &Q) -> Option<usize> where K: Borrow<Q> {
        let mut i = 0;
        while i < self.n { if let Some((kk, _)) = &self.items[i] { if kk.borrow() == k { return Some(i); } } i += 1; }
        None
    }
    pub fn get<Q: ?Sized + Eq>(&self, k: &Q) -> Option<&V> where K: Borrow<Q> {
        match self.pos(k) { Some(i) => self.items[i].as_ref().map(|kv| &kv.1), None => None }
    }
    fn push(&mut self, k: K, v: V) -> usize {
        #[cfg(kani)] kani::assume(self.n < CAP); // bound of the model: at most CAP distinct keys
        let i = self.n; self.items[i] = Some((k, v)); self.n += 1; i
    }
    pub fn insert(&mut self, k: K, v: V) -> Option<V> {
        match self.pos(&k) {
            Some(i) => { let old = self.items[i].take().map(|kv| kv.1); self.items[i] = Some((k, v)); old }
            None => { self.push(k, v); None }
        }
    }
    pub fn iter(&self) -> Iter<'_, K, V> { Iter { map: self, i: 0 } }
    pub fn entry(&mut self, k: K) -> hash_map::Entry<'_, K, V> {
        match self.pos(&k) {
            Some(i) => hash_map::Entry::Occupied(hash_map::OccupiedEntry { map: self, idx: i }),
            None => hash_map::Entry::Vacant(hash_map::VacantEntry { map: self, key: k }),
        }
    }
}
pub struct Iter<'a, K, V> { map: &'a HashMap<K, V>, i: usize }
impl<'a, K, V> Iterator for Iter<'a, K, V> {
    type Item = (&'a K, &'a V);
    fn next(&mut self) -> Option<Self::Item> {
        if self.i < self.map.n { let r = self.map.items[self.i].as_ref().map(|kv| (&kv.0, &kv.1)); self.i += 1; r } else { None }
    }
}
impl<'a, K: Eq, V> IntoIterator for &'a HashMap<K, V> {
    type Item = (&'a K, &'a V); type IntoIter = Iter<'a, K, V>;
    fn into_iter(self) -> Self::IntoIter { self.iter() }
}
impl<K: Eq, V> FromIterator<(K, V)> for HashMap<K, V> {
    fn from_iter<T: IntoIterator<Item = (K, V)>>(iter: T) -> Self {
        let mut m = Self::new(); for (k, v) in iter { m.insert(k, v); } m
    }
}
impl<K: Eq, V: PartialEq> PartialEq for HashMap<K, V> {
    fn eq(&self, o: &Self) -> bool {
        if self.len() != o.len() { return false; }
        let mut i = 0;
        while i < self.n { if let Some((k, v)) = &self.items[i] { if o.get(k) != Some(v) { return false; } } i += 1; }
        true
    }
}
pub mod hash_map {
    use super::HashMap;
    pub enum Entry<'a, K, V> { Occupied(OccupiedEntry<'a, K, V>), Vacant(VacantEntry<'a, K, V>) }
    pub struct OccupiedEntry<'a, K, V> { pub(super) map: &'a mut HashMap<K, V>, pub(super) idx: usize }
    pub struct VacantEntry<'a, K, V> { pub(super) map: &'a mut HashMap<K, V>, pub(super) key: K }
    impl<'a, K: Eq, V> VacantEntry<'a, K, V> {
        pub fn insert(self, v: V) -> &'a mut V { let i = self.map.push(self.key, v); &mut self.map.items[i].as_mut().unwrap().1 }
    }
}
