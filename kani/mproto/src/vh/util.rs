use crate::varint::VarInt;

pub const VMAX: u64 = (1u64 << 62) - 1;

pub fn ref_varint_len(v: u64) -> usize {
    if v < (1 << 6) {
        1
    } else if v < (1 << 14) {
        2
    } else if v < (1 << 30) {
        4
    } else {
        8
    }
}

pub fn ref_varint_put(v: u64, out: &mut [u8]) -> usize {
    let n = ref_varint_len(v);
    let tag: u64 = match n {
        1 => 0,
        2 => 1,
        4 => 2,
        _ => 3,
    };
    let word = v | (tag << (8 * n as u64 - 2));
    let mut i = 0;
    while i < n {
        out[i] = (word >> (8 * (n - 1 - i))) as u8;
        i += 1;
    }
    n
}

pub fn ref_varint_get(b: &[u8]) -> Option<(u64, usize)> {
    if b.is_empty() {
        return None;
    }
    let n = 1usize << (b[0] >> 6);
    if b.len() < n {
        return None;
    }
    let mut v: u64 = (b[0] & 0x3f) as u64;
    let mut i = 1;
    while i < n {
        v = (v << 8) | b[i] as u64;
        i += 1;
    }
    Some((v, n))
}

pub fn eq_prefix(a: &[u8], b: &[u8], n: usize) -> bool {
    let mut i = 0;
    while i < n {
        if a[i] != b[i] {
            return false;
        }
        i += 1;
    }
    true
}

/// RFC 9114 §7.2.4.1 / RFC 9204 §5 / RFC 9220 / RFC 9297 / WT draft: class of a setting identifier
#[derive(Clone, Copy, PartialEq, Eq)]
pub enum IdClass {
    Reserved,
    Known(u8),
    Grease,
    Unknown,
}

pub fn ref_setting_class(id: u64) -> IdClass {
    match id {
        0x00 | 0x02 | 0x03 | 0x04 | 0x05 => IdClass::Reserved,
        0x01 => IdClass::Known(0),
        0x06 => IdClass::Known(1),
        0x07 => IdClass::Known(2),
        0x08 => IdClass::Known(3),
        0x33 => IdClass::Known(4),
        0x2b60_3742 => IdClass::Known(5),
        0xc671_706a => IdClass::Known(6),
        _ => {
            if id >= 0x21 && (id - 0x21) % 0x1f == 0 {
                IdClass::Grease
            } else {
                IdClass::Unknown
            }
        }
    }
}

/// byte-wise UTF-8 validator (Unicode Table 3-7), used as stub for core's word-at-a-time validator
pub fn utf8_model_ok(v: &[u8]) -> bool {
    utf8_model(v).is_ok()
}

/// the same validator with core's error report: Err((valid_up_to, error_len)) where error_len is None when the input
/// ends inside a so-far well-formed sequence and Some(k) when byte k of the sequence starting at valid_up_to is wrong
/// (core::str::Utf8Error semantics; the code under test may branch on either, e.g. lossy / truncating decoders)
pub fn utf8_model(v: &[u8]) -> Result<(), (usize, Option<u8>)> {
    let n = v.len();
    let mut i = 0;
    while i < n {
        let b = v[i];
        if b < 0x80 {
            i += 1;
            continue;
        }
        let (need, lo, hi): (usize, u8, u8) = if b >= 0xC2 && b <= 0xDF {
            (1, 0x80, 0xBF)
        } else if b == 0xE0 {
            (2, 0xA0, 0xBF)
        } else if (b >= 0xE1 && b <= 0xEC) || b == 0xEE || b == 0xEF {
            (2, 0x80, 0xBF)
        } else if b == 0xED {
            (2, 0x80, 0x9F)
        } else if b == 0xF0 {
            (3, 0x90, 0xBF)
        } else if b >= 0xF1 && b <= 0xF3 {
            (3, 0x80, 0xBF)
        } else if b == 0xF4 {
            (3, 0x80, 0x8F)
        } else {
            return Err((i, Some(1)));
        };
        if i + 1 >= n {
            return Err((i, None));
        }
        if v[i + 1] < lo || v[i + 1] > hi {
            return Err((i, Some(1)));
        }
        let mut k = 2;
        while k <= need {
            if i + k >= n {
                return Err((i, None));
            }
            if v[i + k] < 0x80 || v[i + k] > 0xBF {
                return Err((i, Some(k as u8)));
            }
            k += 1;
        }
        i += need + 1;
    }
    Ok(())
}

pub fn utf8_validation_stub(v: &[u8]) -> Result<(), core::str::Utf8Error> {
    match utf8_model(v) {
        Ok(()) => Ok(()),
        // Utf8Error { valid_up_to: usize, error_len: Option<u8> }: built by transmute (no public constructor); the
        // accessors are compared with the real validator's in proto::c11_utf8_model_equiv_*
        Err(e) => Err(unsafe { core::mem::transmute::<(usize, Option<u8>), core::str::Utf8Error>(e) }),
    }
}
