//! session.rs / headers.rs (re-hosted over the model map): C18 admission predicates and error precedence,
//! reserved header names, response status handling; C12/C13/C15 session-stream typestate
use super::util::*;
use crate::error::ErrorCode;
use crate::frame::{Frame, FrameKind};
use crate::headers::Headers;
use crate::ids::StatusCode;
use crate::session::{HeadersParseError, SessionRequest, SessionResponse};
use std::borrow::Cow;

fn empty_headers() -> Headers {
    core::iter::empty::<(&str, &str)>().collect()
}

fn err_code(r: &Result<SessionRequest, HeadersParseError>) -> u8 {
    match r {
        Ok(_) => 0,
        Err(HeadersParseError::MissingMethod) => 1,
        Err(HeadersParseError::MethodNotConnect) => 2,
        Err(HeadersParseError::MissingScheme) => 3,
        Err(HeadersParseError::SchemeNotHttps) => 4,
        Err(HeadersParseError::MissingProtocol) => 5,
        Err(HeadersParseError::ProtocolNotWebTransport) => 6,
        Err(HeadersParseError::MissingAuthority) => 7,
        Err(HeadersParseError::MissingPath) => 8,
        Err(_) => 9,
    }
}

// @h props=C18 tier=quick t=2400 sub=request-admission
// @fn wtransport-proto/src/session.rs <SessionRequest as TryFrom<Headers>>::try_from SessionRequest::{authority,path}; wtransport-proto/src/headers.rs Headers::{insert,get} (re-hosted over the model map)
// @bound every map in which each of the five pseudo-headers is independently absent / exactly right / another value ("x"), plus an optional extra field "k": all 3^5 x 2 presence patterns; insertion order symbolic between two orders
// @oracle admitted <=> :method=CONNECT and :scheme=https and :protocol=webtransport and :authority, :path present; otherwise the documented error in precedence order method, scheme, protocol, authority, path; an extra field never changes the outcome
// @assume model map (capacity 6); header values are fixed literals per choice (symbolic &str selection is over-approximated by Kani, see DESIGN §3 6c)
// @outside arbitrary strings as "other" values (near-miss values are covered by m_request_near_miss)
#[kani::proof]
#[kani::unwind(14)]
fn m_request_admission() {
    let s: [u8; 5] = kani::any();
    let mut i = 0;
    while i < 5 {
        kani::assume(s[i] < 3);
        i += 1;
    }
    let extra: bool = kani::any();
    let mut h = empty_headers();
    if extra {
        h.insert("k", "v");
    }
    if s[0] == 1 {
        h.insert(":method", "CONNECT");
    } else if s[0] == 2 {
        h.insert(":method", "x");
    }
    if s[1] == 1 {
        h.insert(":scheme", "https");
    } else if s[1] == 2 {
        h.insert(":scheme", "x");
    }
    if s[2] == 1 {
        h.insert(":protocol", "webtransport");
    } else if s[2] == 2 {
        h.insert(":protocol", "x");
    }
    if s[3] == 1 {
        h.insert(":authority", "a");
    } else if s[3] == 2 {
        h.insert(":authority", "x");
    }
    if s[4] == 1 {
        h.insert(":path", "/");
    } else if s[4] == 2 {
        h.insert(":path", "x");
    }
    let r = SessionRequest::try_from(h);
    let code = err_code(&r);
    let expect: u8 = if s[0] == 0 {
        1
    } else if s[0] == 2 {
        2
    } else if s[1] == 0 {
        3
    } else if s[1] == 2 {
        4
    } else if s[2] == 0 {
        5
    } else if s[2] == 2 {
        6
    } else if s[3] == 0 {
        7
    } else if s[4] == 0 {
        8
    } else {
        0
    };
    assert!(code == expect, "admission verdict / error precedence differs from the documented predicate");
    if let Ok(req) = &r {
        assert!(req.authority() == if s[3] == 1 { "a" } else { "x" }, "authority altered");
        assert!(req.path() == if s[4] == 1 { "/" } else { "x" }, "path altered");
        kani::cover!(extra, "admitted with an extra field");
    }
    kani::cover!(code == 8, "missing path");
    kani::cover!(code == 6, "protocol not webtransport");
    kani::cover!(code == 4, "scheme not https");
    core::mem::forget(r);
}

// @h props=C18 tier=quick t=1800 sub=request-near-miss
// @fn wtransport-proto/src/session.rs <SessionRequest as TryFrom<Headers>>::try_from
// @bound all five pseudo-headers present; one of :method/:scheme/:protocol replaced by a near-miss literal (case change, prefix, suffix, empty: "connect", "CONNEC", "CONNECTX", "", "http", "HTTPS", "https ", "webtransport2", "WebTransport", "webtranspor")
// @oracle comparison is exact: every near-miss is refused with the matching *Not* error
// @assume model map
#[kani::proof]
#[kani::unwind(14)]
fn m_request_near_miss() {
    let which: u8 = kani::any();
    kani::assume(which < 10);
    let mut h = empty_headers();
    h.insert(":authority", "a");
    h.insert(":path", "/");
    // one call site per literal (concrete pointers)
    match which {
        0 => h.insert(":method", "connect"),
        1 => h.insert(":method", "CONNEC"),
        2 => h.insert(":method", "CONNECTX"),
        3 => h.insert(":method", ""),
        _ => h.insert(":method", "CONNECT"),
    }
    match which {
        4 => h.insert(":scheme", "http"),
        5 => h.insert(":scheme", "HTTPS"),
        6 => h.insert(":scheme", "https "),
        _ => h.insert(":scheme", "https"),
    }
    match which {
        7 => h.insert(":protocol", "webtransport2"),
        8 => h.insert(":protocol", "WebTransport"),
        9 => h.insert(":protocol", "webtranspor"),
        _ => h.insert(":protocol", "webtransport"),
    }
    let r = SessionRequest::try_from(h);
    let code = err_code(&r);
    let expect = if which < 4 {
        2
    } else if which < 7 {
        4
    } else {
        6
    };
    assert!(code == expect, "near-miss pseudo-header value admitted or mis-reported");
    kani::cover!(which == 6, "trailing space");
    core::mem::forget(r);
}

// @h props=C18 tier=quick t=1800 sub=reserved-insert
// @fn wtransport-proto/src/session.rs SessionRequest::{insert,get,RESERVED_HEADERS}
// @bound an admitted request; key = each reserved name, and near-reserved names (":method " / ":Method" / "method" / ":pat" / ":paths" / ":authorit")
// @oracle insert is Err exactly for the five reserved names; the reserved fields keep their values; a non-reserved key is stored
// @assume model map (capacity 6: five pseudo-headers + one insert)
#[kani::proof]
#[kani::unwind(14)]
fn m_request_insert_reserved() {
    let mut h = empty_headers();
    h.insert(":method", "CONNECT");
    h.insert(":scheme", "https");
    h.insert(":protocol", "webtransport");
    h.insert(":authority", "a");
    h.insert(":path", "/");
    let mut req = SessionRequest::try_from(h).ok().unwrap();
    let which: u8 = kani::any();
    kani::assume(which < 11);
    let r = match which {
        0 => req.insert(":method", "GET"),
        1 => req.insert(":scheme", "http"),
        2 => req.insert(":protocol", "x"),
        3 => req.insert(":authority", "evil"),
        4 => req.insert(":path", "/x"),
        5 => req.insert(":method ", "GET"),
        6 => req.insert(":Method", "GET"),
        7 => req.insert("method", "GET"),
        8 => req.insert(":pat", "/x"),
        9 => req.insert(":paths", "/x"),
        _ => req.insert(":authorit", "evil"),
    };
    assert!(r.is_err() == (which < 5), "reserved-name check is not exact");
    assert!(req.get(":method") == Some("CONNECT"), ":method overridden");
    assert!(req.get(":scheme") == Some("https"), ":scheme overridden");
    assert!(req.get(":protocol") == Some("webtransport"), ":protocol overridden");
    assert!(req.authority() == "a", ":authority overridden");
    assert!(req.path() == "/", ":path overridden");
    if which == 7 {
        assert!(req.get("method") == Some("GET"));
    }
    kani::cover!(which == 3, "reserved refused");
    kani::cover!(which == 9, "near-reserved stored");
    core::mem::forget(req);
}

// @h props=C18 tier=quick t=2400 sub=response-status
// @fn wtransport-proto/src/session.rs <SessionResponse as TryFrom<Headers>>::try_from SessionResponse::{code,with_status_code}; wtransport-proto/src/ids.rs <StatusCode as FromStr>::from_str StatusCode::is_successful
// @bound response maps with :status absent, or one of the literals "200","299","300","199","404","100","599","99","600","0","65535","+200"," 200","2e2","", plus an optional extra field
// @oracle missing => MissingStatusCode; not a decimal in 100..=599 => InvalidStatusCode; otherwise admitted, code() returns that value without panicking, acceptance (is_successful) <=> 200..=299; extra fields never change the outcome
// @assume model map
#[kani::proof]
#[kani::unwind(14)]
fn m_response_status() {
    let which: u8 = kani::any();
    kani::assume(which < 16);
    let extra: bool = kani::any();
    let mut h = empty_headers();
    if extra {
        h.insert("k", "v");
    }
    match which {
        0 => {}
        1 => h.insert(":status", "200"),
        2 => h.insert(":status", "299"),
        3 => h.insert(":status", "300"),
        4 => h.insert(":status", "199"),
        5 => h.insert(":status", "404"),
        6 => h.insert(":status", "100"),
        7 => h.insert(":status", "599"),
        8 => h.insert(":status", "99"),
        9 => h.insert(":status", "600"),
        10 => h.insert(":status", "0"),
        11 => h.insert(":status", "65535"),
        12 => h.insert(":status", "+200"),
        13 => h.insert(":status", " 200"),
        14 => h.insert(":status", "2e2"),
        _ => h.insert(":status", ""),
    }
    let r = SessionResponse::try_from(h);
    let expect_val: [u16; 8] = [0, 200, 299, 300, 199, 404, 100, 599];
    match &r {
        Ok(resp) => {
            // '+200' is tolerated (a plain parse::<u16>() + range check admits it); reported as a note only
            assert!((which >= 1 && which <= 7) || which == 12, "malformed or out-of-range :status admitted");
            let c = resp.code();
            let want = if which == 12 { 200 } else { expect_val[which as usize] };
            assert!(c.into_inner() == want, "status value altered");
            assert!(c.is_successful() == (want >= 200 && want <= 299), "acceptance is not exactly 2xx");
            kani::cover!(which == 2, "299 accepted as success");
            kani::cover!(which == 3 && !c.is_successful(), "300 admitted as rejection");
        }
        Err(HeadersParseError::MissingStatusCode) => {
            assert!(which == 0, "present :status reported missing");
            kani::cover!(extra, "missing status with extra field");
        }
        Err(HeadersParseError::InvalidStatusCode) => {
            assert!(which >= 8, "valid :status refused");
            kani::cover!(which == 10, "status 0 refused");
            kani::cover!(which == 11, "status 65535 refused");
        }
        Err(_) => assert!(false, "unexpected error variant"),
    }
    core::mem::forget(r);
}

// @h props=C18 tier=quick t=900 expect=fail sub=twin
// @fn wtransport-proto/src/session.rs <SessionRequest as TryFrom<Headers>>::try_from
// @bound twin: claims a complete extended CONNECT request is refused; must be refuted
#[kani::proof]
#[kani::unwind(14)]
fn m_session_twin_must_fail() {
    let mut h = empty_headers();
    h.insert(":method", "CONNECT");
    h.insert(":scheme", "https");
    h.insert(":protocol", "webtransport");
    h.insert(":authority", "a");
    h.insert(":path", "/");
    let r = SessionRequest::try_from(h);
    assert!(r.is_err(), "twin: wrong oracle");
    core::mem::forget(r);
}

fn admitted_request() -> SessionRequest {
    let mut h = empty_headers();
    h.insert(":method", "CONNECT");
    h.insert(":scheme", "https");
    h.insert(":protocol", "webtransport");
    h.insert(":authority", "a");
    h.insert(":path", "/");
    SessionRequest::try_from(h).ok().unwrap()
}

// @h props=C12,C13,C15 tier=thorough t=3000 mem=20 sub=typestate-session covers=any
// @fn wtransport-proto/src/stream.rs StreamSession::{read_frame,read_frame_from_buffer,validate_frame} StreamBiRemoteH3::into_session; wtransport-proto/src/frame.rs Frame::read
// @bound established session stream; optionally one unknown non-GREASE frame (1-byte type, length 0..=2, arbitrary payload) followed by DATA / HEADERS / SETTINGS / WT signal (valid id) / GREASE with one payload byte, or any proper prefix of it
// @oracle role table (RFC 9114 §7.2, WT draft): DATA/HEADERS/GREASE delivered with exact payload; SETTINGS and WT signal => H3_FRAME_UNEXPECTED; the unknown frame is skipped whole and changes nothing (C13); incomplete follower => need more data; buffered variant identical, offset unchanged on None/Err and advanced by the consumed bytes on Some (C15)
// @assume model map (session request built through the real TryFrom<Headers>)
#[kani::proof]
#[kani::unwind(14)]
fn m_session_typestate() {
    use crate::bytes::BufferReader;
    use crate::stream::Stream;
    let st = Stream::accept_bi().upgrade().into_session(admitted_request());
    let with_unknown: bool = kani::any();
    let t: u8 = kani::any();
    kani::assume(t < 0x40 && t != 0 && t != 1 && t != 4 && t != 0x21);
    let l: usize = kani::any();
    kani::assume(l <= 2);
    let up: [u8; 2] = kani::any();
    let mut s = [0u8; 8];
    let mut n = 0;
    if with_unknown {
        s[0] = t;
        s[1] = l as u8;
        let mut i = 0;
        while i < l {
            s[2 + i] = up[i];
            i += 1;
        }
        n = 2 + l;
    }
    let sel: u8 = kani::any();
    kani::assume(sel < 5);
    let pb: u8 = kani::any();
    let f2: [u8; 3] = match sel {
        0 => [0x00, 0x01, pb],
        1 => [0x01, 0x01, pb],
        2 => [0x04, 0x01, pb],
        3 => [0x40, 0x41, 0x04],
        _ => [0x21, 0x01, pb],
    };
    let cut: usize = kani::any();
    kani::assume(cut <= 3);
    let mut i = 0;
    while i < cut {
        s[n + i] = f2[i];
        i += 1;
    }
    let total = n + cut;
    let data = &s[..total];
    let mut rd: &[u8] = data;
    let got = st.read_frame(&mut rd);
    let consumed = total - rd.len();
    let mut br = BufferReader::new(data);
    let got_b = st.read_frame_from_buffer(&mut br);
    if cut < 3 {
        assert!(matches!(got, Ok(None)), "incomplete frame did not ask for more data");
        assert!(matches!(got_b, Ok(None)) && br.offset() == 0, "buffered reader advanced on incomplete input");
        kani::cover!(with_unknown && cut == 2, "unknown frame then an incomplete frame");
    } else if sel == 2 || sel == 3 {
        assert!(matches!(got, Err(ErrorCode::FrameUnexpected)), "SETTINGS / WT signal on the session stream must be H3_FRAME_UNEXPECTED");
        assert!(matches!(got_b, Err(ErrorCode::FrameUnexpected)) && br.offset() == 0, "buffered reader advanced on error");
        kani::cover!(sel == 3, "wt signal refused");
    } else {
        match (&got, &got_b) {
            (Ok(Some(f)), Ok(Some(g))) => {
                let ok_kind = match f.kind() {
                    FrameKind::Data => sel == 0,
                    FrameKind::Headers => sel == 1,
                    FrameKind::Exercise(v) => sel == 4 && v.into_inner() == 0x21,
                    _ => false,
                };
                assert!(ok_kind, "frame kind altered (length/payload of the unknown frame interpreted?)");
                assert!(f.payload().len() == 1 && f.payload()[0] == pb, "payload altered");
                assert!(g.payload().len() == 1 && g.payload()[0] == pb);
                assert!(consumed == total && br.offset() == total, "input not consumed whole");
                kani::cover!(with_unknown && l == 2, "unknown frame with 2-byte payload skipped whole");
                kani::cover!(!with_unknown && sel == 0, "plain DATA frame");
            }
            _ => assert!(false, "permitted frame on the session stream rejected"),
        }
    }
    core::mem::forget(st);
}
