//! harnesses over the mirror (real source files of wtransport-proto, model map / model Huffman coder)
pub mod util;
mod settings_h;
mod session_h;
mod qpack_h;
