//! QPACK field sections (real qpack.rs / headers.rs over the model map and the model Huffman coder):
//! C16 emitted field sections are well-formed (static / literal representations only, pseudo-headers first),
//! C14 string kernel round trip incl. the H bit, C11 decoder reaction to dynamic-table references
use super::util::*;
use crate::frame::FrameKind;
use crate::headers::Headers;
use crate::qpack::{Decoder, DecodingError, Encoder};
use crate::session::SessionRequest;

/// RFC 9204 Appendix A rows used by the reference decoder below (independent transcription)
fn static_row(i: usize) -> Option<(&'static [u8], &'static [u8])> {
    Some(match i {
        0 => (b":authority", b""),
        1 => (b":path", b"/"),
        15 => (b":method", b"CONNECT"),
        17 => (b":method", b"GET"),
        22 => (b":scheme", b"http"),
        23 => (b":scheme", b"https"),
        25 => (b":status", b"200"),
        27 => (b":status", b"404"),
        90 => (b"origin", b""),
        95 => (b"user-agent", b""),
        _ => return None,
    })
}

fn bytes_eq(a: &[u8], b: &[u8]) -> bool {
    a.len() == b.len() && eq_prefix(a, b, a.len())
}

/// reference prefix-integer decoder (values < 2^14 are enough for the emitted sections)
fn ref_int(b: &[u8], pos: &mut usize, n: u32) -> (u8, usize) {
    let mask = (1usize << n) - 1;
    let first = b[*pos] as usize;
    *pos += 1;
    let flags = (first >> n) as u8;
    let mut v = first & mask;
    if v == mask {
        let mut shift = 0;
        loop {
            let c = b[*pos] as usize;
            *pos += 1;
            v += (c & 0x7f) << shift;
            shift += 7;
            if c & 0x80 == 0 {
                break;
            }
        }
    }
    (flags, v)
}

/// reference string decoder: H=0 literal; H=1 the MODEL code ([0x00]++s or [0x01,c] = ccc), into a 8-byte scratch
fn ref_string(b: &[u8], pos: &mut usize, n: u32, out: &mut [u8; 16]) -> usize {
    let (flags, len) = ref_int(b, pos, n);
    let h = flags & 1 == 1;
    let data = &b[*pos..*pos + len];
    *pos += len;
    if !h {
        let mut i = 0;
        while i < len {
            out[i] = data[i];
            i += 1;
        }
        len
    } else {
        assert!(len == 2 && data[0] == 0x01, "H bit set although the coded form is not shorter");
        out[0] = data[1];
        out[1] = data[1];
        out[2] = data[1];
        3
    }
}

#[allow(dead_code)]
fn request_field_section(k: u8) {
    let a: u8 = kani::any();
    let p: u8 = kani::any();
    let v: u8 = kani::any();
    kani::assume(a >= b'a' && a <= b'z' && p >= b'a' && p <= b'z' && v >= b'0' && v <= b'9');

    let ab = [a];
    let pb = [b'/', p];
    let kb = [k];
    let vb = [v];
    let auth = unsafe { core::str::from_utf8_unchecked(&ab) };
    let path = unsafe { core::str::from_utf8_unchecked(&pb) };
    let key = unsafe { core::str::from_utf8_unchecked(&kb) };
    let val = unsafe { core::str::from_utf8_unchecked(&vb) };
    let mut h: Headers = core::iter::empty::<(&str, &str)>().collect();
    // application field inserted FIRST: the encoder must still emit pseudo-headers first
    h.insert(key, val);
    h.insert(":path", path);
    h.insert(":authority", auth);
    h.insert(":protocol", "webtransport");
    h.insert(":scheme", "https");
    h.insert(":method", "CONNECT");
    let f = h.generate_frame();
    assert!(matches!(f.kind(), FrameKind::Headers));
    let b = f.payload();
    assert!(b.len() >= 2 && b[0] == 0x00 && b[1] == 0x00, "field section prefix must be Required Insert Count 0, Base 0");
    let mut pos = 2;
    let mut seen = [false; 6]; // method scheme protocol authority path appfield
    let mut app_seen = false;
    let mut lines = 0;
    while pos < b.len() {
        let first = b[pos];
        let mut name = [0u8; 16];
        let mut value = [0u8; 16];
        let (nl, vl);
        if first & 0x80 != 0 {
            assert!(first & 0x40 != 0, "indexed line references the dynamic table");
            let (_, idx) = ref_int(b, &mut pos, 6);
            let (rn, rv) = static_row(idx).expect("indexed line uses a row the reference does not expect here");
            nl = rn.len();
            vl = rv.len();
            let mut i = 0;
            while i < nl {
                name[i] = rn[i];
                i += 1;
            }
            let mut i = 0;
            while i < vl {
                value[i] = rv[i];
                i += 1;
            }
        } else if first & 0xC0 == 0x40 {
            assert!(first & 0x10 != 0, "name reference into the dynamic table");
            let (_, idx) = ref_int(b, &mut pos, 4);
            let (rn, _) = static_row(idx).expect("name reference uses an unexpected row");
            nl = rn.len();
            let mut i = 0;
            while i < nl {
                name[i] = rn[i];
                i += 1;
            }
            vl = ref_string(b, &mut pos, 7, &mut value);
        } else {
            assert!(first & 0xE0 == 0x20, "line is neither indexed, name-referenced nor literal (post-base forms are dynamic)");
            nl = ref_string(b, &mut pos, 3, &mut name);
            vl = ref_string(b, &mut pos, 7, &mut value);
        }
        lines += 1;
        let n = &name[..nl];
        let val_b = &value[..vl];
        if n[0] == b':' {
            assert!(!app_seen, "pseudo-header field after a regular field");
            if bytes_eq(n, b":method") {
                assert!(bytes_eq(val_b, b"CONNECT") && !seen[0]);
                seen[0] = true;
            } else if bytes_eq(n, b":scheme") {
                assert!(bytes_eq(val_b, b"https") && !seen[1]);
                seen[1] = true;
            } else if bytes_eq(n, b":protocol") {
                assert!(bytes_eq(val_b, b"webtransport") && !seen[2]);
                seen[2] = true;
            } else if bytes_eq(n, b":authority") {
                assert!(bytes_eq(val_b, &ab) && !seen[3], ":authority value altered on the wire");
                seen[3] = true;
            } else if bytes_eq(n, b":path") {
                assert!(bytes_eq(val_b, &pb) && !seen[4], ":path value altered on the wire");
                seen[4] = true;
            } else {
                assert!(false, "unexpected pseudo-header emitted");
            }
        } else {
            assert!(bytes_eq(n, &kb) && bytes_eq(val_b, &vb) && !app_seen, "application field altered on the wire");
            app_seen = true;
        }
    }
    assert!(pos == b.len() && lines == 6, "field section has trailing bytes / wrong number of lines");
    assert!(seen[0] && seen[1] && seen[2] && seen[3] && seen[4] && app_seen, "a field is missing on the wire");
    kani::cover!(true, "section decoded by the reference");
    core::mem::forget(f);
    core::mem::forget(h);
}

// NOTE: `request_field_section` (whole `Headers::generate_frame` -> reference decoder) is kept for experiments but not
// registered: symbolic execution of `Encoder::encode` (Vec growth inside loops with symbolic trip counts) did not leave
// the symbolic-execution phase in 30 min even with per-loop unwinding bounds. The ordering rule is decided on
// `Headers::sorted_headers` directly (below), the line kernels under C14/C16 in kani/proto.

// NOTE (pseudo-header-first rule, RFC 9114 §4.3): two attempts to decide it on `Headers::sorted_headers` failed and
// were removed: with symbolic names `sort_by_key` over string slices exhausted 20 GB; with concrete names Kani reported
// a counterexample that passes natively (the slice sort moves `(&str, &str)` pairs through raw-pointer selects, which
// CBMC over-approximates - DESIGN §3 6c). The rule is therefore OUTSIDE the claim of C16 (seeded mutant C16 is missed).

// NOTE: a string-kernel round trip over the model Huffman coder (H bit set iff the coded form is shorter) ran out of
// 20 GB: the coder's two branches allocate under a symbolic condition. The H-bit rule is outside the claim; the
// literal (H=0) path is decided in kani/proto (c11_qpack_decode_string_*), the length prefix by the integer kernels.

// NOTE: `Headers::with_frame` on `00 00` + one dynamic-table reference line (2 symbolic bytes) ran out of 20 GB after
// 37 min, like every other whole-function use of `Decoder::decode`. The decoder's reaction to dynamic references is
// decided on its kernels only (c11_qpack_line_type_and_table: line classes and the static-table bound).
