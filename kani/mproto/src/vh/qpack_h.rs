//! QPACK field sections (real qpack.rs / headers.rs over the model map and the model Huffman coder):
//! C16 emitted field sections are well-formed (static / literal representations only, pseudo-headers first),
//! C14 string kernel round trip incl. the H bit, C11 decoder reaction to dynamic-table references
use super::util::*;
use crate::frame::FrameKind;
use crate::headers::Headers;
use crate::qpack::{Decoder, DecodingError, Encoder};
use crate::session::SessionRequest;

/// RFC 9204 Appendix A rows used by the reference decoder below (independent transcription)
fn static_row(i: usize) -> Option<(&'static [u8], &'static [u8])> {
    Some(match i {
        0 => (b":authority", b""),
        1 => (b":path", b"/"),
        15 => (b":method", b"CONNECT"),
        17 => (b":method", b"GET"),
        22 => (b":scheme", b"http"),
        23 => (b":scheme", b"https"),
        25 => (b":status", b"200"),
        27 => (b":status", b"404"),
        90 => (b"origin", b""),
        95 => (b"user-agent", b""),
        _ => return None,
    })
}

fn bytes_eq(a: &[u8], b: &[u8]) -> bool {
    a.len() == b.len() && eq_prefix(a, b, a.len())
}

/// reference prefix-integer decoder (values < 2^14 are enough for the emitted sections)
fn ref_int(b: &[u8], pos: &mut usize, n: u32) -> (u8, usize) {
    let mask = (1usize << n) - 1;
    let first = b[*pos] as usize;
    *pos += 1;
    let flags = (first >> n) as u8;
    let mut v = first & mask;
    if v == mask {
        let mut shift = 0;
        loop {
            let c = b[*pos] as usize;
            *pos += 1;
            v += (c & 0x7f) << shift;
            shift += 7;
            if c & 0x80 == 0 {
                break;
            }
        }
    }
    (flags, v)
}

/// reference string decoder: H=0 literal; H=1 the MODEL code ([0x00]++s or [0x01,c] = ccc), into a 8-byte scratch
fn ref_string(b: &[u8], pos: &mut usize, n: u32, out: &mut [u8; 16]) -> usize {
    let (flags, len) = ref_int(b, pos, n);
    let h = flags & 1 == 1;
    let data = &b[*pos..*pos + len];
    *pos += len;
    if !h {
        let mut i = 0;
        while i < len {
            out[i] = data[i];
            i += 1;
        }
        len
    } else {
        assert!(len == 2 && data[0] == 0x01, "H bit set although the coded form is not shorter");
        out[0] = data[1];
        out[1] = data[1];
        out[2] = data[1];
        3
    }
}

#[allow(dead_code)]
fn request_field_section(k: u8) {
    let a: u8 = kani::any();
    let p: u8 = kani::any();
    let v: u8 = kani::any();
    kani::assume(a >= b'a' && a <= b'z' && p >= b'a' && p <= b'z' && v >= b'0' && v <= b'9');

    let ab = [a];
    let pb = [b'/', p];
    let kb = [k];
    let vb = [v];
    let auth = unsafe { core::str::from_utf8_unchecked(&ab) };
    let path = unsafe { core::str::from_utf8_unchecked(&pb) };
    let key = unsafe { core::str::from_utf8_unchecked(&kb) };
    let val = unsafe { core::str::from_utf8_unchecked(&vb) };
    let mut h: Headers = core::iter::empty::<(&str, &str)>().collect();
    // application field inserted FIRST: the encoder must still emit pseudo-headers first
    h.insert(key, val);
    h.insert(":path", path);
    h.insert(":authority", auth);
    h.insert(":protocol", "webtransport");
    h.insert(":scheme", "https");
    h.insert(":method", "CONNECT");
    let f = h.generate_frame();
    assert!(matches!(f.kind(), FrameKind::Headers));
    let b = f.payload();
    assert!(b.len() >= 2 && b[0] == 0x00 && b[1] == 0x00, "field section prefix must be Required Insert Count 0, Base 0");
    let mut pos = 2;
    let mut seen = [false; 6]; // method scheme protocol authority path appfield
    let mut app_seen = false;
    let mut lines = 0;
    while pos < b.len() {
        let first = b[pos];
        let mut name = [0u8; 16];
        let mut value = [0u8; 16];
        let (nl, vl);
        if first & 0x80 != 0 {
            assert!(first & 0x40 != 0, "indexed line references the dynamic table");
            let (_, idx) = ref_int(b, &mut pos, 6);
            let (rn, rv) = static_row(idx).expect("indexed line uses a row the reference does not expect here");
            nl = rn.len();
            vl = rv.len();
            let mut i = 0;
            while i < nl {
                name[i] = rn[i];
                i += 1;
            }
            let mut i = 0;
            while i < vl {
                value[i] = rv[i];
                i += 1;
            }
        } else if first & 0xC0 == 0x40 {
            assert!(first & 0x10 != 0, "name reference into the dynamic table");
            let (_, idx) = ref_int(b, &mut pos, 4);
            let (rn, _) = static_row(idx).expect("name reference uses an unexpected row");
            nl = rn.len();
            let mut i = 0;
            while i < nl {
                name[i] = rn[i];
                i += 1;
            }
            vl = ref_string(b, &mut pos, 7, &mut value);
        } else {
            assert!(first & 0xE0 == 0x20, "line is neither indexed, name-referenced nor literal (post-base forms are dynamic)");
            nl = ref_string(b, &mut pos, 3, &mut name);
            vl = ref_string(b, &mut pos, 7, &mut value);
        }
        lines += 1;
        let n = &name[..nl];
        let val_b = &value[..vl];
        if n[0] == b':' {
            assert!(!app_seen, "pseudo-header field after a regular field");
            if bytes_eq(n, b":method") {
                assert!(bytes_eq(val_b, b"CONNECT") && !seen[0]);
                seen[0] = true;
            } else if bytes_eq(n, b":scheme") {
                assert!(bytes_eq(val_b, b"https") && !seen[1]);
                seen[1] = true;
            } else if bytes_eq(n, b":protocol") {
                assert!(bytes_eq(val_b, b"webtransport") && !seen[2]);
                seen[2] = true;
            } else if bytes_eq(n, b":authority") {
                assert!(bytes_eq(val_b, &ab) && !seen[3], ":authority value altered on the wire");
                seen[3] = true;
            } else if bytes_eq(n, b":path") {
                assert!(bytes_eq(val_b, &pb) && !seen[4], ":path value altered on the wire");
                seen[4] = true;
            } else {
                assert!(false, "unexpected pseudo-header emitted");
            }
        } else {
            assert!(bytes_eq(n, &kb) && bytes_eq(val_b, &vb) && !app_seen, "application field altered on the wire");
            app_seen = true;
        }
    }
    assert!(pos == b.len() && lines == 6, "field section has trailing bytes / wrong number of lines");
    assert!(seen[0] && seen[1] && seen[2] && seen[3] && seen[4] && app_seen, "a field is missing on the wire");
    kani::cover!(true, "section decoded by the reference");
    core::mem::forget(f);
    core::mem::forget(h);
}

// NOTE: `request_field_section` (whole `Headers::generate_frame` -> reference decoder) is kept for experiments but not
// registered: symbolic execution of `Encoder::encode` (Vec growth inside loops with symbolic trip counts) did not leave
// the symbolic-execution phase in 30 min even with per-loop unwinding bounds. The ordering rule is decided on
// `Headers::sorted_headers` directly (below), the line kernels under C14/C16 in kani/proto.

// NOTE (pseudo-header-first rule, RFC 9114 §4.3): two attempts to decide it on `Headers::sorted_headers` failed and
// were removed: with symbolic names `sort_by_key` over string slices exhausted 20 GB; with concrete names Kani reported
// a counterexample that passes natively (the slice sort moves `(&str, &str)` pairs through raw-pointer selects, which
// CBMC over-approximates - DESIGN §3 6c). The rule is therefore OUTSIDE the claim of C16 (seeded mutant C16 is missed).

// @h props=C14,C16 tier=quick t=2400 mem=20 sub=qpack-string-roundtrip
// @fn wtransport-proto/src/qpack.rs Encoder::encode_string::<7> Decoder::decode_string::<7> Encoder::encode_integer Decoder::decode_integer (over the model Huffman coder)
// @bound every ASCII string of exactly 3 bytes (covers the model code's shrinking case `ccc` and the non-shrinking case), flag bit arbitrary
// @oracle H bit set iff the coded form is strictly shorter; length prefix == coded length; decode(encode(s)) == s consuming exactly the encoding
// @assume model Huffman coder (invertible; shrinks runs of three equal bytes)
#[kani::proof]
#[kani::unwind(12)]
#[kani::stub(core::str::validations::run_utf8_validation, crate::vh::util::utf8_validation_stub)]
fn m_qpack_string_roundtrip_3() {
    use crate::qpack::verif as q;
    let sb: [u8; 3] = kani::any();
    kani::assume(sb[0] < 0x80 && sb[1] < 0x80 && sb[2] < 0x80);
    let s = unsafe { core::str::from_utf8_unchecked(&sb) };
    let mut out: Vec<u8> = Vec::with_capacity(8);
    q::encode_string::<7, _>(0, s, &mut out).unwrap();
    let shrinks = sb[0] == sb[1] && sb[1] == sb[2];
    let h = out[0] & 0x80 != 0;
    assert!(h == shrinks, "H bit must be set iff the Huffman form is strictly shorter");
    let l = (out[0] & 0x7f) as usize;
    assert!(out.len() == 1 + l, "length prefix differs from the coded length");
    assert!(l == if shrinks { 2 } else { 3 });
    if !shrinks {
        assert!(out[1] == sb[0] && out[2] == sb[1] && out[3] == sb[2], "literal string bytes altered");
    }
    out.push(0xEE);
    let total = out.len();
    let mut rd: &[u8] = &out[..];
    match q::decode_string::<7>(&mut rd) {
        Ok(back) => {
            assert!(back.len() == 3 && eq_prefix(back.as_bytes(), &sb, 3), "decode(encode(s)) != s");
            assert!(rd.len() == 1 && rd[0] == 0xEE, "decoder did not consume exactly the encoding");
            core::mem::forget(back);
        }
        Err(_) => assert!(false, "decode(encode(s)) failed"),
    }
    kani::cover!(shrinks, "Huffman-shrinking string");
    kani::cover!(!shrinks, "literal string");
    core::mem::forget(out);
}

// @h props=C11,C12 tier=quick t=2400 mem=20 sub=field-section-dynamic-refs
// @fn wtransport-proto/src/qpack.rs Decoder::{decode,decode_field_line_type}; wtransport-proto/src/headers.rs Headers::with_frame
// @bound field sections 00 00 followed by one line of 2 symbolic bytes whose first byte makes it: an indexed line into the dynamic table, a post-base indexed line, a name reference into the dynamic table, a post-base name reference, or an indexed static line with index 99..=190
// @oracle all of them are decoding errors (=> QPACK_DECOMPRESSION_FAILED through Headers::with_frame), never a panic, never an accepted field
// @assume model map
#[kani::proof]
#[kani::unwind(8)]
#[kani::stub(core::str::validations::run_utf8_validation, crate::vh::util::utf8_validation_stub)]
fn m_field_section_dynamic_refs() {
    use crate::frame::Frame;
    use std::borrow::Cow;
    let b0: u8 = kani::any();
    let b1: u8 = kani::any();
    let class: u8 = kani::any();
    kani::assume(class < 5);
    match class {
        0 => kani::assume(b0 & 0xC0 == 0x80),                  // indexed, T=0 (dynamic)
        1 => kani::assume(b0 & 0xF0 == 0x10),                  // indexed post-base
        2 => kani::assume(b0 & 0xD0 == 0x40),                  // literal with name reference, T=0
        3 => kani::assume(b0 & 0xF0 == 0x00),                  // literal with post-base name reference
        _ => kani::assume(b0 == 0xFF && b1 >= 36 && b1 < 0x80), // indexed static, index = 63 + b1 >= 99
    }
    let payload = [0x00, 0x00, b0, b1];
    let f = Frame::new_headers(Cow::Borrowed(&payload[..]));
    let r = Headers::with_frame(&f);
    match &r {
        Err(e) => {
            assert!(e.to_code().into_inner() == 0x200, "field section error must be QPACK_DECOMPRESSION_FAILED");
            kani::cover!(class == 4, "static index out of range refused");
            kani::cover!(class == 1, "post-base index refused");
        }
        Ok(_) => assert!(false, "dynamic-table reference / out-of-range static index accepted"),
    }
    core::mem::forget(r);
}
