//! SETTINGS (real settings.rs over the model map): C11 totality + error codes, C13 unknown/GREASE ids ignored,
//! C14 round trip, C16 well-formedness of generated frames
use super::util::*;
use crate::error::ErrorCode;
use crate::frame::{Frame, FrameKind};
use crate::settings::{SettingId, Settings};
use crate::varint::VarInt;
use std::borrow::Cow;

fn known_id(k: u8) -> SettingId {
    match k {
        0 => SettingId::QPackMaxTableCapacity,
        1 => SettingId::MaxFieldSectionSize,
        2 => SettingId::QPackBlockedStreams,
        3 => SettingId::EnableConnectProtocol,
        4 => SettingId::H3Datagram,
        5 => SettingId::EnableWebTransport,
        _ => SettingId::WebTransportMaxSessions,
    }
}

/// reference SETTINGS payload parser (RFC 9114 §7.2.4): Ok(list of (class, id, value)) or the error code
fn settings_total<const N: usize>() {
    let buf: [u8; N] = kani::any();
    let len: usize = kani::any();
    kani::assume(len <= N);
    let data = &buf[..len];
    // reference walk
    let mut pos = 0usize;
    let mut expect_err: Option<u64> = None;
    let mut seen = [false; 7];
    let mut vals = [0u64; 7];
    let mut grease_ids = [0u64; 4];
    let mut grease_n = 0usize;
    let mut grease_dup = false;
    while pos < len && expect_err.is_none() {
        match ref_varint_get(&data[pos..]) {
            None => expect_err = Some(0x106),
            Some((id, n1)) => match ref_varint_get(&data[pos + n1..]) {
                None => expect_err = Some(0x106),
                Some((val, n2)) => {
                    pos += n1 + n2;
                    match ref_setting_class(id) {
                        IdClass::Reserved => expect_err = Some(0x109),
                        IdClass::Known(k) => {
                            if seen[k as usize] {
                                expect_err = Some(0x109);
                            } else {
                                seen[k as usize] = true;
                                vals[k as usize] = val;
                            }
                        }
                        IdClass::Grease => {
                            // a repeated GREASE identifier is a duplicate setting as well (RFC 9114 §7.2.4)
                            let mut j = 0;
                            while j < grease_n {
                                if grease_ids[j] == id {
                                    grease_dup = true;
                                    expect_err = Some(0x109);
                                }
                                j += 1;
                            }
                            if grease_n < 4 {
                                grease_ids[grease_n] = id;
                                grease_n += 1;
                            }
                        }
                        IdClass::Unknown => {}
                    }
                }
            },
        }
    }
    let f = Frame::new_settings(Cow::Borrowed(data));
    let got = Settings::with_frame(&f);
    match (&got, expect_err) {
        (Err(e), Some(code)) => {
            assert!(e.to_code().into_inner() == code, "SETTINGS rejected with a wrong error code");
            kani::cover!(code == 0x106, "truncated pair => H3_FRAME_ERROR");
            kani::cover!(code == 0x109 && !grease_dup, "reserved/duplicate => H3_SETTINGS_ERROR");
        }
        (Ok(s), None) => {
            let mut k = 0u8;
            while k < 7 {
                let g = s.get(known_id(k)).map(|v| v.into_inner());
                if seen[k as usize] {
                    assert!(g == Some(vals[k as usize]), "setting value altered");
                } else {
                    assert!(g.is_none(), "setting invented");
                }
                k += 1;
            }
            kani::cover!(seen[4] && seen[0], "H3_DATAGRAM and QPACK_MAX_TABLE_CAPACITY present");
            kani::cover!(grease_n > 0, "GREASE setting accepted");
            kani::cover!(len == N && !seen[0] && !seen[1] && !seen[2] && !seen[3] && !seen[4] && !seen[5] && !seen[6] && grease_n == 0, "only unknown settings: ignored");
        }
        (Ok(_), Some(_)) => assert!(false, "malformed SETTINGS accepted"),
        (Err(_), None) => assert!(false, "well-formed SETTINGS (incl. unknown / GREASE ids) refused"),
    }
    core::mem::forget(got);
}

// @h props=C11,C13,C12 tier=quick t=1800 sub=settings-with-frame
// @fn wtransport-proto/src/settings.rs Settings::{with_frame,get} SettingId::{parse,is_reserved,is_exercise} (re-hosted over the model map)
// @bound every SETTINGS payload of length 0..=6
// @oracle reference walk per RFC 9114 §7.2.4: truncated pair => H3_FRAME_ERROR; reserved id (0,2,3,4,5) or duplicate => H3_SETTINGS_ERROR; otherwise Ok with exactly the known settings and their values; unknown ids and GREASE ids are ignored/accepted and never change the result
// @assume model map (capacity 6 distinct keys, not reachable with <= 6 payload bytes)
// @outside payloads > 6 bytes (thorough 8)
#[kani::proof]
#[kani::unwind(9)]
fn m_settings_with_frame_6() {
    settings_total::<6>()
}

// @h props=C11,C13 tier=thorough t=3600 sub=settings-with-frame
// @fn wtransport-proto/src/settings.rs Settings::with_frame
// @bound every SETTINGS payload of length 0..=8
// @oracle as m_settings_with_frame_6
// @assume model map
#[kani::proof]
#[kani::unwind(11)]
fn m_settings_with_frame_8() {
    settings_total::<8>()
}

// @h props=C13 tier=quick t=1800 sub=settings-unknown-inserted
// @fn wtransport-proto/src/settings.rs Settings::with_frame SettingId::parse
// @bound two known settings (ids symbolic among the 7 known, distinct, 1-byte values) with one (unknown or GREASE id < 2^30, value < 2^14) pair inserted before / between / after
// @oracle metamorphic: the parsed settings equal those of the payload without the inserted pair
// @assume model map
#[kani::proof]
#[kani::unwind(9)]
fn m_settings_unknown_inserted() {
    let k1: u8 = kani::any();
    let k2: u8 = kani::any();
    kani::assume(k1 < 7 && k2 < 7 && k1 != k2);
    let v1: u8 = kani::any();
    let v2: u8 = kani::any();
    kani::assume(v1 < 0x40 && v2 < 0x40);
    let uid: u32 = kani::any();
    kani::assume(uid < (1 << 30));
    kani::assume(matches!(ref_setting_class(uid as u64), IdClass::Unknown | IdClass::Grease));
    let uval: u16 = kani::any();
    kani::assume(uval < 0x4000);
    let at: u8 = kani::any();
    kani::assume(at < 3);
    let ids = [0x01u64, 0x06, 0x07, 0x08, 0x33, 0x2b60_3742, 0xc671_706a];
    let mut buf = [0u8; 24];
    let mut n = 0;
    let mut j = 0u8;
    while j < 3 {
        if j == at {
            n += ref_varint_put(uid as u64, &mut buf[n..]);
            n += ref_varint_put(uval as u64, &mut buf[n..]);
        }
        if j == 0 {
            n += ref_varint_put(ids[k1 as usize], &mut buf[n..]);
            buf[n] = v1;
            n += 1;
        }
        if j == 1 {
            n += ref_varint_put(ids[k2 as usize], &mut buf[n..]);
            buf[n] = v2;
            n += 1;
        }
        j += 1;
    }
    let f = Frame::new_settings(Cow::Borrowed(&buf[..n]));
    match Settings::with_frame(&f) {
        Ok(s) => {
            let mut k = 0u8;
            while k < 7 {
                let g = s.get(known_id(k)).map(|v| v.into_inner());
                let e = if k == k1 {
                    Some(v1 as u64)
                } else if k == k2 {
                    Some(v2 as u64)
                } else {
                    None
                };
                assert!(g == e, "an unknown/GREASE setting changed the interpretation of the others");
                k += 1;
            }
            kani::cover!(at == 1 && uid >= 0x4000, "4-byte unknown id between two known settings");
            kani::cover!(matches!(ref_setting_class(uid as u64), IdClass::Grease), "GREASE id");
            core::mem::forget(s);
        }
        Err(_) => assert!(false, "an unknown/GREASE setting made valid SETTINGS fail"),
    }
}

// @h props=C14 tier=quick t=2400 mem=20 sub=settings-roundtrip
// @fn wtransport-proto/src/settings.rs SettingsBuilder::{qpack_max_table_capacity,qpack_blocked_streams,enable_connect_protocol,enable_webtransport,enable_h3_datagrams,webtransport_max_sessions,build} Settings::{generate_frame_ref,with_frame,get}
// @bound every subset of the six builder operations (symbolic choice), values: every varint for QPACK_MAX_TABLE_CAPACITY, < 2^14 for QPACK_BLOCKED_STREAMS, < 64 for WEBTRANSPORT_MAX_SESSIONS; destination capacity 0..=48
// @oracle generate_frame_ref is Err exactly when the destination is smaller than the reference size; payload decodes under the reference parser into distinct, non-reserved (id,value) pairs equal to what was built (C16); with_frame(generate_frame_ref()) yields the same map (C14). The allocating twin `generate_frame` (Vec growth under symbolic sizes timed out) is exercised on the concrete WebTransport profile by d_local_settings
// @assume model map
#[kani::proof]
#[kani::unwind(9)]
fn m_settings_roundtrip() {
    let pick: [bool; 6] = kani::any();
    let a: u64 = kani::any();
    let b: u64 = kani::any();
    let c: u64 = kani::any();
    // values of every varint length for the first setting, 1- and 2-byte values for the other two (keeps the payload small)
    kani::assume(a <= VMAX && b < (1 << 14) && c < (1 << 6));
    let mut bld = Settings::builder();
    if pick[0] {
        bld = bld.qpack_max_table_capacity(VarInt::try_from_u64(a).unwrap());
    }
    if pick[1] {
        bld = bld.qpack_blocked_streams(VarInt::try_from_u64(b).unwrap());
    }
    if pick[2] {
        bld = bld.enable_connect_protocol();
    }
    if pick[3] {
        bld = bld.enable_webtransport();
    }
    if pick[4] {
        bld = bld.enable_h3_datagrams();
    }
    if pick[5] {
        bld = bld.webtransport_max_sessions(VarInt::try_from_u64(c).unwrap());
    }
    let s = bld.build();
    let mut scratch = [0u8; 48];
    let cap: usize = kani::any();
    kani::assume(cap <= 48);
    // reference size of the payload
    let mut want = 0usize;
    if pick[0] {
        want += 1 + ref_varint_len(a);
    }
    if pick[1] {
        want += 1 + ref_varint_len(b);
    }
    if pick[2] {
        want += 2;
    }
    if pick[3] {
        want += 5;
    }
    if pick[4] {
        want += 2;
    }
    if pick[5] {
        want += 8 + ref_varint_len(c);
    }
    // `generate_frame_ref` (no allocation): Err exactly when the buffer is too small
    let f1 = match s.generate_frame_ref(&mut scratch[..cap]) {
        Ok(f) => {
            assert!(cap >= want, "generate_frame_ref wrote more than the buffer holds");
            kani::cover!(cap == want && want > 0, "exact fit");
            f
        }
        Err(_) => {
            assert!(cap < want, "generate_frame_ref refused a sufficient buffer");
            kani::cover!(true, "too small");
            core::mem::forget(s);
            return;
        }
    };
    let plen = f1.payload().len();
    assert!(plen == want, "payload size differs from the reference size");
    assert!(matches!(f1.kind(), FrameKind::Settings));
    // reference decode of the generated payload: distinct known ids with the built values
    let mut seen = [false; 7];
    let mut pos = 0;
    let p = f1.payload();
    let mut pairs = 0;
    while pos < plen {
        let (id, n1) = ref_varint_get(&p[pos..]).expect("generated SETTINGS payload truncated");
        let (val, n2) = ref_varint_get(&p[pos + n1..]).expect("generated SETTINGS payload truncated");
        pos += n1 + n2;
        pairs += 1;
        match ref_setting_class(id) {
            IdClass::Known(k) => {
                assert!(!seen[k as usize], "generated SETTINGS repeats an identifier");
                seen[k as usize] = true;
                let w = match k {
                    0 => a,
                    2 => b,
                    6 => c,
                    _ => 1,
                };
                assert!(val == w, "generated SETTINGS value differs from the built one");
            }
            _ => assert!(false, "generated SETTINGS contains a reserved / unknown identifier"),
        }
    }
    assert!(seen[0] == pick[0] && seen[2] == pick[1] && seen[3] == pick[2] && seen[5] == pick[3] && seen[4] == pick[4] && seen[6] == pick[5] && !seen[1],
        "generated SETTINGS advertise a different set than built");
    // decode∘encode
    match Settings::with_frame(&f1) {
        Ok(t) => {
            let mut k = 0u8;
            while k < 7 {
                assert!(t.get(known_id(k)).map(|v| v.into_inner()) == s.get(known_id(k)).map(|v| v.into_inner()), "settings changed in round trip");
                k += 1;
            }
            core::mem::forget(t);
        }
        Err(_) => assert!(false, "with_frame(generate_frame_ref()) failed"),
    }
    kani::cover!(pairs == 6, "all six settings");
    kani::cover!(pairs == 0, "empty settings");
    core::mem::forget(f1);
    core::mem::forget(s);
}

// @h props=C11,C13,C14 tier=quick t=900 expect=fail sub=twin
// @fn wtransport-proto/src/settings.rs Settings::with_frame
// @bound twin: claims no 2-byte SETTINGS payload is accepted; must be refuted
#[kani::proof]
#[kani::unwind(9)]
fn m_settings_twin_must_fail() {
    let b: [u8; 2] = kani::any();
    let f = Frame::new_settings(Cow::Borrowed(&b[..]));
    let r = Settings::with_frame(&f);
    assert!(r.is_err(), "twin: wrong oracle");
    core::mem::forget(r);
}
