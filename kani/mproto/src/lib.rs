//! E2 mirror of `wtransport-proto`: the real source files (regenerated into src/gen/ from /repo on every run,
//! only `use std::collections::{HashMap,hash_map}` re-pointed at the model map, `#[cfg(test)]` modules dropped).
#![allow(unused, missing_docs, clippy::all, unused_qualifications)]
#[path = "gen/bytes.rs"]
pub mod bytes;
#[path = "gen/capsule/mod.rs"]
pub mod capsule;
#[path = "gen/datagram.rs"]
pub mod datagram;
#[path = "gen/error.rs"]
pub mod error;
#[path = "gen/frame.rs"]
pub mod frame;
#[path = "gen/headers.rs"]
pub mod headers;
#[path = "gen/ids.rs"]
pub mod ids;
#[path = "gen/qpack.rs"]
pub mod qpack;
#[path = "gen/session.rs"]
pub mod session;
#[path = "gen/settings.rs"]
pub mod settings;
#[path = "gen/stream.rs"]
pub mod stream;
#[path = "gen/stream_header.rs"]
pub mod stream_header;
#[path = "gen/varint.rs"]
pub mod varint;

pub mod model_map;

#[cfg(kani)]
pub mod vh;
