//! reads lines "<function> <decimal argument>" and prints the real function's result ("panic" if it panics)
use std::io::BufRead;
use wtransport_proto::frame::FrameKind;
use wtransport_proto::ids::StreamId;
use wtransport_proto::stream_header::StreamKind;
use wtransport_proto::varint::VarInt;
use wtransport_proto::verif_hooks as vh;

fn vi(v: u64) -> VarInt {
    VarInt::try_from_u64(v).expect("argument must be < 2^62")
}

fn main() {
    std::panic::set_hook(Box::new(|_| {}));
    let stdin = std::io::stdin();
    for line in stdin.lock().lines() {
        let line = line.unwrap();
        let mut it = line.split_whitespace();
        let (Some(f), Some(a)) = (it.next(), it.next()) else { continue };
        let v: u64 = a.parse().unwrap();
        let f = f.to_string();
        let r = std::panic::catch_unwind(move || match f.as_str() {
            "frame_is_id_exercise" => FrameKind::is_id_exercise(vi(v)).to_string(),
            "stream_is_id_exercise" => StreamKind::is_id_exercise(vi(v)).to_string(),
            "setting_is_exercise" => vh::settings::setting_id_is_exercise(vi(v)).to_string(),
            "setting_is_reserved" => vh::settings::setting_id_is_reserved(vi(v)).to_string(),
            "varint_size" => vi(v).size().to_string(),
            "varint_parse_size" => VarInt::parse_size(v as u8).to_string(),
            "streamid_is_bidirectional" => StreamId::new(vi(v)).is_bidirectional().to_string(),
            "streamid_is_client_initiated" => StreamId::new(vi(v)).is_client_initiated().to_string(),
            other => format!("unknown-function:{other}"),
        });
        println!("{}", r.unwrap_or_else(|_| "panic".to_string()));
    }
}
