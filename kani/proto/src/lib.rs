//! E1 harnesses: Kani over the real `wtransport-proto` crate (path dependency on /repo).
#![allow(unused, clippy::all)]
#![cfg(kani)]

pub mod common;
pub mod ref_table;
mod c01;
pub mod c11;
mod c12;
pub mod c13;
pub mod c14;
mod c15;
mod c16;
mod c17;
mod c18;
