//! C12 — HTTP/3 and WebTransport stream rules are enforced with the prescribed error (E1 part: typestate readers
//! over frame sequences of depth 2, error-code registry; the per-stream runners of the driver are in the mirror crates)
use crate::c11::kind_id;
use crate::c13::control_stream;
use crate::common::*;
use wtransport_proto::bytes::BytesReader;
use wtransport_proto::error::ErrorCode;
use wtransport_proto::frame::{Frame, FrameKind};
use wtransport_proto::stream::Stream;

/// alphabet of the sequences: writes one frame at `at`, returns the new position
/// 0 DATA(1 byte) 1 HEADERS(1 byte) 2 SETTINGS(empty) 3 WT signal, valid session id 4  4 WT signal, invalid id 5
/// 5 GREASE 0x21 (1 byte) 6 DATA announcing 4097 payload bytes (oversize)
fn put_frame(sel: u8, out: &mut [u8; 8], at: usize, pb: u8) -> usize {
    match sel {
        0 => {
            out[at] = 0x00;
            out[at + 1] = 1;
            out[at + 2] = pb;
            at + 3
        }
        1 => {
            out[at] = 0x01;
            out[at + 1] = 1;
            out[at + 2] = pb;
            at + 3
        }
        2 => {
            out[at] = 0x04;
            out[at + 1] = 0;
            at + 2
        }
        3 => {
            out[at] = 0x40;
            out[at + 1] = 0x41;
            out[at + 2] = 0x04;
            at + 3
        }
        4 => {
            out[at] = 0x40;
            out[at + 1] = 0x41;
            out[at + 2] = 0x05;
            at + 3
        }
        5 => {
            out[at] = 0x21;
            out[at + 1] = 1;
            out[at + 2] = pb;
            at + 3
        }
        _ => {
            out[at] = 0x00;
            out[at + 1] = 0x50;
            out[at + 2] = 0x01;
            at + 3
        }
    }
}

const H3_FRAME_UNEXPECTED: u64 = 0x105;
const H3_FRAME_ERROR: u64 = 0x106;
const H3_EXCESSIVE_LOAD: u64 = 0x107;
const H3_ID_ERROR: u64 = 0x108;

#[derive(Clone, Copy)]
pub enum Role {
    Control,
    BiRemote,
    BiLocal,
}

/// RFC 9114 §6.2.1/§7.2 + draft-ietf-webtrans-http3 §4: verdict for frame `sel` on `role`; `first` = no frame
/// has been delivered on this stream yet. Ok(()) = delivered to the caller (DATA/HEADERS/SETTINGS as allowed,
/// GREASE to be ignored, WT signal to upgrade)
pub fn table(role: Role, sel: u8, first: bool) -> Result<(), u64> {
    match sel {
        4 => return Err(H3_ID_ERROR),
        6 => return Err(H3_EXCESSIVE_LOAD),
        _ => {}
    }
    match role {
        // control stream: only SETTINGS (and ignorable GREASE) frames; DATA/HEADERS/WT => H3_FRAME_UNEXPECTED
        Role::Control => match sel {
            2 | 5 => Ok(()),
            _ => Err(H3_FRAME_UNEXPECTED),
        },
        // peer-opened request stream: SETTINGS forbidden; the WT signal is only valid as the very first frame
        Role::BiRemote => match sel {
            0 | 1 | 5 => Ok(()),
            2 => Err(H3_FRAME_UNEXPECTED),
            _ => {
                if first {
                    Ok(())
                } else {
                    Err(H3_FRAME_ERROR)
                }
            }
        },
        // locally-opened request stream (responses): SETTINGS and a WT signal from the peer are unexpected
        Role::BiLocal => match sel {
            0 | 1 | 5 => Ok(()),
            _ => Err(H3_FRAME_UNEXPECTED),
        },
    }
}

macro_rules! depth2 {
    ($name:ident, $mk:expr, $role:expr) => {
        #[kani::proof]
        #[kani::unwind(8)]
        fn $name() {
            let s1: u8 = kani::any();
            let s2: u8 = kani::any();
            kani::assume(s1 < 7 && s2 < 7);
            let pb: u8 = kani::any();
            let mut out = [0u8; 8];
            let p1 = put_frame(s1, &mut out, 0, pb);
            let p2 = put_frame(s2, &mut out, p1, pb);
            let mut st = $mk;
            let mut rd: &[u8] = &out[..p2];
            let r1 = st.read_frame(&mut rd);
            let ids = [0u64, 1, 4, 0x41, 0x41, 0x21, 0];
            match (r1, table($role, s1, true)) {
                (Ok(Some(f)), Ok(())) => {
                    assert!(kind_id(f.kind()) == ids[s1 as usize], "first frame mis-identified");
                    assert!(p2 - rd.len() == p1, "first frame not consumed exactly");
                    // second frame
                    let r2 = st.read_frame(&mut rd);
                    match (r2, table($role, s2, false)) {
                        (Ok(Some(g)), Ok(())) => {
                            assert!(kind_id(g.kind()) == ids[s2 as usize], "second frame mis-identified");
                            assert!(rd.is_empty());
                            kani::cover!(s1 == 5 && s2 == 2, "GREASE then SETTINGS");
                            kani::cover!(s1 == 0 && s2 == 1, "DATA then HEADERS");
                        }
                        (Err(e), Err(code)) => {
                            assert!(e.to_code().into_inner() == code, "second frame: wrong error code");
                            kani::cover!(s2 == 3, "WT signal not first");
                            kani::cover!(s2 == 6, "oversize second frame");
                        }
                        (Ok(Some(_)), Err(_)) => assert!(false, "prohibited second frame accepted"),
                        (Err(_), Ok(())) => assert!(false, "permitted second frame rejected"),
                        (Ok(None), _) => assert!(false, "complete second frame reported incomplete"),
                    }
                }
                (Err(e), Err(code)) => {
                    assert!(e.to_code().into_inner() == code, "first frame: wrong error code");
                    kani::cover!(s1 == 4, "invalid session id");
                    kani::cover!(s1 == 2, "SETTINGS refused");
                    kani::cover!(s1 == 0, "DATA refused");
                }
                (Ok(Some(_)), Err(_)) => assert!(false, "prohibited first frame accepted"),
                (Err(_), Ok(())) => assert!(false, "permitted first frame rejected"),
                (Ok(None), _) => assert!(false, "complete first frame reported incomplete"),
            }
        }
    };
}

// @h props=C12 tier=quick t=1800 sub=typestate-control covers=any
// @fn wtransport-proto/src/stream.rs StreamUniRemoteH3::{read_frame,validate_frame}; wtransport-proto/src/frame.rs Frame::read
// @bound control stream; all 49 sequences of two frames over {DATA, HEADERS, SETTINGS, WT(valid id), WT(invalid id), GREASE, oversize 4097}, payload byte symbolic
// @oracle reference table from RFC 9114 §6.2.1/§7.2 and the WT draft: DATA/HEADERS/WT => H3_FRAME_UNEXPECTED; invalid id => H3_ID_ERROR; > 4096 => H3_EXCESSIVE_LOAD; SETTINGS/GREASE delivered; exact consumption
// @outside "first frame must be SETTINGS / no second SETTINGS" (driver RemoteSettingsStream::run: mirror crate); unknown non-GREASE frames (C13)
depth2!(c12_typestate_control, control_stream(), Role::Control);

// @h props=C12 tier=quick t=1800 sub=typestate-biremote covers=any
// @fn wtransport-proto/src/stream.rs StreamBiRemoteH3::{read_frame,validate_frame}; wtransport-proto/src/frame.rs Frame::read
// @bound peer-opened request stream; as c12_typestate_control
// @oracle SETTINGS => H3_FRAME_UNEXPECTED; WT signal first => delivered (upgrade), later => H3_FRAME_ERROR; invalid id => H3_ID_ERROR; > 4096 => H3_EXCESSIVE_LOAD; DATA/HEADERS/GREASE delivered
depth2!(c12_typestate_biremote, Stream::accept_bi().upgrade(), Role::BiRemote);

// @h props=C12 tier=quick t=1800 sub=typestate-bilocal covers=any
// @fn wtransport-proto/src/stream.rs StreamBiLocalH3::{read_frame,validate_frame}; wtransport-proto/src/frame.rs Frame::read
// @bound locally-opened request stream; as c12_typestate_control
// @oracle SETTINGS and WT signal => H3_FRAME_UNEXPECTED; invalid id => H3_ID_ERROR; > 4096 => H3_EXCESSIVE_LOAD; DATA/HEADERS/GREASE delivered
depth2!(c12_typestate_bilocal, Stream::open_bi().upgrade(), Role::BiLocal);

/// ASYNC path (the one the driver uses), first-frame tracking on a peer-opened request stream: frame F1 of a kind fixed
/// per instance (one payload byte, symbolic), then the WT signal. (Kept as cheap instances next to the full 49-sequence async harnesses, which need per-loop unwinding bounds to fit.)
macro_rules! async_wt_after {
    ($name:ident, $t:literal) => {
        #[kani::proof]
        #[kani::unwind(3)]
        #[kani::stub(<wtransport_proto::bytes::IoReadError as std::convert::From<std::io::Error>>::from, crate::common::io_read_err_stub)]
        fn $name() {
            use wtransport_proto::stream::IoReadError;
            let pb: u8 = kani::any();
            let sid_q: u8 = kani::any();
            kani::assume(sid_q < 16);
            let wire: [u8; 6] = [$t, 0x01, pb, 0x40, 0x41, sid_q << 2];
            let mut st = Stream::accept_bi().upgrade();
            let mut rd = ByteReader::<6> { data: wire, len: 6, off: 0 };
            let r1 = poll_once(st.read_frame_async(&mut rd)).unwrap();
            match r1 {
                Ok(f) => {
                    assert!(kind_id(f.kind()) == $t as u64 && f.payload().len() == 1 && f.payload()[0] == pb, "first frame altered (async)");
                    assert!(rd.off == 3);
                    core::mem::forget(f);
                }
                Err(_) => assert!(false, "permitted first frame rejected by the async reader"),
            }
            let r2 = poll_once(st.read_frame_async(&mut rd)).unwrap();
            match r2 {
                Err(IoReadError::H3(e)) => {
                    assert!(e.to_code().into_inner() == H3_FRAME_ERROR, "WT signal that is not the first frame: wrong error code (async)");
                    kani::cover!(true, "late WT signal refused (async)");
                }
                Ok(_) => assert!(false, "WT signal accepted although it is not the first frame on the stream (async reader)"),
                Err(_) => assert!(false, "unexpected I/O error"),
            }
        }
    };
}

macro_rules! depth2_async {
    ($name:ident, $mk:expr, $role:expr) => {
        #[kani::proof]
        #[kani::unwind(8)]
        #[kani::stub(<wtransport_proto::bytes::IoReadError as std::convert::From<std::io::Error>>::from, crate::common::io_read_err_stub)]
        fn $name() {
            use wtransport_proto::stream::IoReadError;
            let s1: u8 = kani::any();
            let s2: u8 = kani::any();
            kani::assume(s1 < 7 && s2 < 7);
            let pb: u8 = kani::any();
            let mut out = [0u8; 8];
            let p1 = put_frame(s1, &mut out, 0, pb);
            let p2 = put_frame(s2, &mut out, p1, pb);
            let mut st = $mk;
            let mut rd = ByteReader::<8> { data: out, len: p2, off: 0 };
            let ids = [0u64, 1, 4, 0x41, 0x41, 0x21, 0];
            let r1 = poll_once(st.read_frame_async(&mut rd)).unwrap();
            match (r1, table($role, s1, true)) {
                (Ok(f), Ok(())) => {
                    assert!(kind_id(f.kind()) == ids[s1 as usize], "first frame mis-identified (async)");
                    assert!(rd.off == p1, "first frame not consumed exactly (async)");
                    core::mem::forget(f);
                    let r2 = poll_once(st.read_frame_async(&mut rd)).unwrap();
                    match (r2, table($role, s2, false)) {
                        (Ok(g), Ok(())) => {
                            assert!(kind_id(g.kind()) == ids[s2 as usize], "second frame mis-identified (async)");
                            assert!(rd.off == p2);
                            kani::cover!(s1 == 5 && s2 == 0, "GREASE then DATA (async)");
                            core::mem::forget(g);
                        }
                        (Err(IoReadError::H3(e)), Err(code)) => {
                            assert!(e.to_code().into_inner() == code, "second frame: wrong error code (async)");
                            kani::cover!(s1 == 5 && s2 == 3, "WT signal after GREASE refused (async)");
                        }
                        (Ok(_), Err(_)) => assert!(false, "prohibited second frame accepted by the async reader"),
                        _ => assert!(false, "permitted second frame rejected by the async reader"),
                    }
                }
                (Err(IoReadError::H3(e)), Err(code)) => {
                    assert!(e.to_code().into_inner() == code, "first frame: wrong error code (async)");
                    kani::cover!(s1 == 4, "invalid session id (async)");
                }
                (Ok(_), Err(_)) => assert!(false, "prohibited first frame accepted by the async reader"),
                _ => assert!(false, "permitted first frame rejected by the async reader"),
            }
        }
    };
}

// @h props=C12,C15 tier=quick t=2400 mem=20 sub=typestate-async-biremote covers=any
// @fn wtransport-proto/src/stream.rs StreamBiRemoteH3::{read_frame_async,validate_frame}; wtransport-proto/src/frame.rs Frame::read_async
// @bound peer-opened request stream read through the ASYNC reader; all 49 sequences of two frames over the 7-symbol alphabet, byte-wise delivery
// @oracle same reference table as c12_typestate_biremote
// @assume From<io::Error> stub; model source never errors / never Pending (L1 covers chunkings)
// @unwindset read_frame_async:1 GetBuffer:3 GetVarint:3
depth2_async!(c12_typestate_async_biremote, Stream::accept_bi().upgrade(), Role::BiRemote);

// @h props=C12,C15 tier=quick t=2400 mem=20 sub=typestate-async-control covers=any
// @fn wtransport-proto/src/stream.rs StreamUniRemoteH3::{read_frame_async,validate_frame}
// @bound control stream, async reader; all 49 sequences of two frames over the 7-symbol alphabet
// @oracle same reference table as c12_typestate_control
// @assume as c12_typestate_async_biremote
// @unwindset read_frame_async:1 GetBuffer:3 GetVarint:3
depth2_async!(c12_typestate_async_control, control_stream(), Role::Control);

// @h props=C12,C15 tier=thorough t=2400 mem=20 sub=typestate-async-bilocal covers=any
// @fn wtransport-proto/src/stream.rs StreamBiLocalH3::{read_frame_async,validate_frame}
// @bound locally-opened request stream, async reader; all 49 sequences
// @oracle same reference table as c12_typestate_bilocal
// @assume as c12_typestate_async_biremote
// @unwindset read_frame_async:1 GetBuffer:3 GetVarint:3
depth2_async!(c12_typestate_async_bilocal, Stream::open_bi().upgrade(), Role::BiLocal);

// @h props=C12,C15 tier=quick t=2400 mem=20 sub=typestate-async-first-frame
// @fn wtransport-proto/src/stream.rs StreamBiRemoteH3::{read_frame_async,validate_frame}; wtransport-proto/src/frame.rs Frame::read_async
// @bound peer-opened request stream, async reader: a GREASE frame (type 0x21, one symbolic payload byte) followed by a WT signal with any 1-byte valid session id
// @oracle the GREASE frame is delivered and counts as the first frame: the WT signal after it is refused with H3_FRAME_ERROR (same table as the one-shot reader, c12_typestate_biremote)
// @assume From<io::Error> stub; byte-wise model source (L1 covers chunkings)
// @unwindset read_frame_async:1
async_wt_after!(c12_async_wt_after_grease, 0x21);

// @h props=C12,C15 tier=quick t=2400 mem=20 sub=typestate-async-first-frame
// @fn wtransport-proto/src/stream.rs StreamBiRemoteH3::{read_frame_async,validate_frame}
// @bound as c12_async_wt_after_grease with a DATA frame first
// @oracle as c12_async_wt_after_grease
// @assume as c12_async_wt_after_grease
// @unwindset read_frame_async:1
async_wt_after!(c12_async_wt_after_data, 0x00);

// @h props=C12,C15 tier=thorough t=2400 mem=20 sub=typestate-async-first-frame
// @fn wtransport-proto/src/stream.rs StreamBiRemoteH3::{read_frame_async,validate_frame}
// @bound as c12_async_wt_after_grease with a HEADERS frame first
// @oracle as c12_async_wt_after_grease
// @assume as c12_async_wt_after_grease
// @unwindset read_frame_async:1
async_wt_after!(c12_async_wt_after_headers, 0x01);

// @h props=C12,C16 tier=quick t=300 sub=error-code-registry
// @fn wtransport-proto/src/error.rs ErrorCode::to_code
// @bound all 15 error codes
// @oracle IANA HTTP/3 error code registry (RFC 9114 §8.1), RFC 9204 §6, RFC 9297 §5.2 (H3_DATAGRAM_ERROR), draft-ietf-webtrans-http3 (WEBTRANSPORT_BUFFERED_STREAM_REJECTED 0x3994bd84, WEBTRANSPORT_SESSION_GONE 0x170d7b68)
#[kani::proof]
fn c12_error_code_registry() {
    assert!(ErrorCode::Datagram.to_code().into_inner() == 0x33);
    assert!(ErrorCode::NoError.to_code().into_inner() == 0x100);
    assert!(ErrorCode::StreamCreation.to_code().into_inner() == 0x103);
    assert!(ErrorCode::ClosedCriticalStream.to_code().into_inner() == 0x104);
    assert!(ErrorCode::FrameUnexpected.to_code().into_inner() == 0x105);
    assert!(ErrorCode::Frame.to_code().into_inner() == 0x106);
    assert!(ErrorCode::ExcessiveLoad.to_code().into_inner() == 0x107);
    assert!(ErrorCode::Id.to_code().into_inner() == 0x108);
    assert!(ErrorCode::Settings.to_code().into_inner() == 0x109);
    assert!(ErrorCode::MissingSettings.to_code().into_inner() == 0x10a);
    assert!(ErrorCode::RequestRejected.to_code().into_inner() == 0x10b);
    assert!(ErrorCode::Message.to_code().into_inner() == 0x10e);
    assert!(ErrorCode::Decompression.to_code().into_inner() == 0x200);
    assert!(ErrorCode::BufferedStreamRejected.to_code().into_inner() == 0x3994_bd84);
    assert!(ErrorCode::SessionGone.to_code().into_inner() == 0x170d_7b68);
    kani::cover!(true, "reached");
}

// @h props=C12 tier=quick t=900 expect=fail sub=twin
// @fn wtransport-proto/src/stream.rs StreamBiRemoteH3::read_frame
// @bound twin: claims a WT signal is never delivered on a peer-opened request stream; must be refuted
#[kani::proof]
#[kani::unwind(8)]
fn c12_twin_must_fail() {
    let mut st = Stream::accept_bi().upgrade();
    let mut rd: &[u8] = &[0x40, 0x41, 0x04];
    assert!(!matches!(st.read_frame(&mut rd), Ok(Some(_))), "twin: wrong oracle");
}
