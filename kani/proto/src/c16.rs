//! C16 — everything the endpoint emits is well-formed (E1 part: constants vs registries, static table vs RFC 9204
//! Appendix A, QPACK field-line kernels; preamble/datagram/frame producers are shared with C01/C03/C14)
use crate::common::*;
use crate::ref_table::RFC9204_STATIC_TABLE;
use wtransport_proto::frame::FrameKind;
use wtransport_proto::settings::SettingId;
use wtransport_proto::stream_header::StreamKind;
use wtransport_proto::varint::VarInt;
use wtransport_proto::verif_hooks as vh;

// @h props=C16,C12 tier=quick t=600 sub=type-registry
// @fn wtransport-proto/src/frame.rs FrameKind::{id,parse}; wtransport-proto/src/stream_header.rs StreamKind::{id,parse}; wtransport-proto/src/settings.rs SettingId::{id,parse}; wtransport-proto/src/capsule/mod.rs CapsuleKind::parse; wtransport-proto/src/lib.rs WEBTRANSPORT_ALPN
// @bound every id < 2^30 for parse (1-, 2-, 4-byte varints); all enum variants for id
// @oracle RFC 9114 §11.2 (DATA 0x0, HEADERS 0x1, SETTINGS 0x4; streams: control 0x0, QPACK enc 0x2, dec 0x3), WT draft (signal 0x41, stream 0x54, ENABLE_WEBTRANSPORT 0x2b603742, MAX_SESSIONS 0xc671706a), RFC 9204 §5 (0x1, 0x7), RFC 9114 (0x6), RFC 9220 (0x8), RFC 9297 (0x33, capsule), CLOSE_WEBTRANSPORT_SESSION 0x2843, ALPN "h3"; parse∘id = id
#[kani::proof]
fn c16_type_registry() {
    assert!(vh::frame::frame_kind_id(FrameKind::Data).into_inner() == 0x0);
    assert!(vh::frame::frame_kind_id(FrameKind::Headers).into_inner() == 0x1);
    assert!(vh::frame::frame_kind_id(FrameKind::Settings).into_inner() == 0x4);
    assert!(vh::frame::frame_kind_id(FrameKind::WebTransport).into_inner() == 0x41);
    assert!(vh::stream_header::stream_kind_id(StreamKind::Control).into_inner() == 0x0);
    assert!(vh::stream_header::stream_kind_id(StreamKind::QPackEncoder).into_inner() == 0x2);
    assert!(vh::stream_header::stream_kind_id(StreamKind::QPackDecoder).into_inner() == 0x3);
    assert!(vh::stream_header::stream_kind_id(StreamKind::WebTransport).into_inner() == 0x54);
    assert!(vh::settings::setting_id_id(SettingId::QPackMaxTableCapacity).into_inner() == 0x1);
    assert!(vh::settings::setting_id_id(SettingId::MaxFieldSectionSize).into_inner() == 0x6);
    assert!(vh::settings::setting_id_id(SettingId::QPackBlockedStreams).into_inner() == 0x7);
    assert!(vh::settings::setting_id_id(SettingId::EnableConnectProtocol).into_inner() == 0x8);
    assert!(vh::settings::setting_id_id(SettingId::H3Datagram).into_inner() == 0x33);
    assert!(vh::settings::setting_id_id(SettingId::EnableWebTransport).into_inner() == 0x2b60_3742);
    assert!(vh::settings::setting_id_id(SettingId::WebTransportMaxSessions).into_inner() == 0xc671_706a);
    assert!(wtransport_proto::WEBTRANSPORT_ALPN == b"h3");
    let t: u32 = kani::any();
    kani::assume(t < (1 << 30));
    let id = VarInt::from_u32(t);
    let grease = t >= 0x21 && (t - 0x21) % 0x1f == 0;
    match vh::frame::frame_kind_parse(id) {
        Some(k) => {
            assert!(vh::frame::frame_kind_id(k).into_inner() == t as u64, "FrameKind parse/id not inverse");
            assert!(matches!(t, 0 | 1 | 4 | 0x41) || grease);
        }
        None => assert!(!matches!(t, 0 | 1 | 4 | 0x41) && !grease),
    }
    match vh::stream_header::stream_kind_parse(id) {
        Some(k) => {
            assert!(vh::stream_header::stream_kind_id(k).into_inner() == t as u64, "StreamKind parse/id not inverse");
            assert!(matches!(t, 0 | 2 | 3 | 0x54) || grease);
        }
        None => assert!(!matches!(t, 0 | 2 | 3 | 0x54) && !grease),
    }
    match vh::settings::setting_id_parse(id) {
        Ok(k) => {
            assert!(vh::settings::setting_id_id(k).into_inner() == t as u64, "SettingId parse/id not inverse");
            assert!(matches!(t, 1 | 6 | 7 | 8 | 0x33 | 0x2b60_3742) || grease);
        }
        Err(reserved) => {
            assert!(reserved == matches!(t, 0 | 2 | 3 | 4 | 5), "reserved setting ids are exactly 0,2,3,4,5");
            assert!(!matches!(t, 1 | 6 | 7 | 8 | 0x33 | 0x2b60_3742) && !grease);
        }
    }
    assert!(vh::capsule::capsule_kind_parse(id).is_some() == (t == 0x2843), "CLOSE_WEBTRANSPORT_SESSION capsule type is 0x2843");
    kani::cover!(grease && t > 0x4000, "4-byte GREASE id");
    kani::cover!(t == 0x2843, "close capsule");
}

// @h props=C16,C14 tier=quick t=1800 sub=static-table
// @fn wtransport-proto/src/qpack.rs StaticTable::{STATIC_TABLE,lookup_field,lookup_index}
// @bound all 99 rows (concrete)
// @oracle row-by-row equality with RFC 9204 Appendix A (independent transcription); lookup_index(name,value) of each row returns an exact hit at an index whose row has that (name,value), and a name-only query returns the FIRST row of that name
#[kani::proof]
#[kani::unwind(101)]
fn c16_static_table_rows() {
    let mut i = 0;
    while i < 99 {
        let (k, v) = vh::qpack::lookup_field(i).unwrap();
        let (rk, rv) = RFC9204_STATIC_TABLE[i];
        assert!(k.len() == rk.len() && eq_prefix(k.as_bytes(), rk.as_bytes(), rk.len()), "static table name differs from RFC 9204 Appendix A");
        assert!(v.len() == rv.len() && eq_prefix(v.as_bytes(), rv.as_bytes(), rv.len()), "static table value differs from RFC 9204 Appendix A");
        i += 1;
    }
    assert!(vh::qpack::lookup_field(99).is_none());
    kani::cover!(true, "reached");
}

/// lookup_index(name, value) for a row whose name is the FIRST with that name: exact value => (true, idx), any other
/// value of the same length (e.g. differing only by case) => (false, idx) -- the value must not be normalised
macro_rules! lookup_exact {
    ($name:ident, $idx:literal, $key:literal, $val:literal, $n:literal) => {
        #[kani::proof]
        #[kani::unwind(101)]
        fn $name() {
            let v: [u8; $n] = kani::any();
            let mut i = 0;
            while i < $n {
                kani::assume(v[i] < 0x80);
                i += 1;
            }
            let vs = unsafe { core::str::from_utf8_unchecked(&v) };
            let want: &[u8] = $val;
            let same = eq_prefix(&v, want, $n);
            match vh::qpack::lookup_index($key, vs) {
                Some((exact, idx)) => {
                    assert!(idx == $idx, "name resolved to a different static row than the first one of that name");
                    assert!(exact == same, "static-table value match must be byte-exact (a normalised match changes the value the peer decodes)");
                    kani::cover!(exact, "exact hit");
                    kani::cover!(!exact, "name-only hit");
                }
                None => assert!(false, "static name not found"),
            }
        }
    };
}

// @h props=C14,C16 tier=quick t=1800 sub=static-lookup-exact
// @fn wtransport-proto/src/qpack.rs StaticTable::lookup_index
// @bound name ":method", every 7-byte ASCII value
// @oracle exact (name,value) hit <=> value == "CONNECT" byte for byte, at row 15 (first ":method" row); otherwise name-only hit at row 15 (the value then travels as a literal, so decode(encode(v)) == v)
lookup_exact!(c16_lookup_index_method, 15, ":method", b"CONNECT", 7);

// @h props=C14,C16 tier=quick t=1800 sub=static-lookup-exact
// @fn wtransport-proto/src/qpack.rs StaticTable::lookup_index
// @bound name ":scheme", every 4-byte ASCII value
// @oracle as c16_lookup_index_method with row 22 (":scheme","http")
lookup_exact!(c16_lookup_index_scheme, 22, ":scheme", b"http", 4);

// @h props=C14,C16 tier=quick t=1800 sub=static-lookup-exact
// @fn wtransport-proto/src/qpack.rs StaticTable::lookup_index
// @bound name ":status", every 3-byte ASCII value
// @oracle as c16_lookup_index_method with row 24 (":status","103")
lookup_exact!(c16_lookup_index_status, 24, ":status", b"103", 3);

// @h props=C14,C16 tier=thorough t=1800 sub=static-lookup-exact
// @fn wtransport-proto/src/qpack.rs StaticTable::lookup_index
// @bound name "x-frame-options", every 4-byte ASCII value
// @oracle as c16_lookup_index_method with row 97 ("x-frame-options","deny")
lookup_exact!(c16_lookup_index_xframe, 97, "x-frame-options", b"deny", 4);

// @h props=C16 tier=quick t=900 expect=fail sub=twin
// @fn wtransport-proto/src/qpack.rs StaticTable::lookup_field
// @bound twin: claims row 17 is (":method","POST"); must be refuted
#[kani::proof]
#[kani::unwind(12)]
fn c16_twin_must_fail() {
    let (_, v) = vh::qpack::lookup_field(17).unwrap();
    assert!(v.len() == 4, "twin: wrong oracle");
}


/// polls `fut` until it is ready, at most `max` times
fn drive<F: std::future::Future>(fut: F, max: usize) -> Option<F::Output> {
    let mut fut = std::pin::pin!(fut);
    let mut cx = std::task::Context::from_waker(std::task::Waker::noop());
    let mut i = 0;
    while i < max {
        if let std::task::Poll::Ready(v) = fut.as_mut().poll(&mut cx) {
            return Some(v);
        }
        i += 1;
    }
    None
}

// @h props=C16,C01 tier=quick t=2400 mem=20 sub=async-writers-under-flow-control
// @fn wtransport-proto/src/bytes.rs BytesWriterAsync::put_buffer PutBuffer::poll
// @bound a 4-byte symbolic buffer written into a sink that, at every poll_write, either suspends (at most twice in total) or takes one byte of what it is offered; the future is re-polled after every suspension (3 polls); unwind 6
// @oracle the sink ends up with exactly the buffer: nothing duplicated, dropped or reordered however the writes are cut and suspended
// @assume From<io::Error> stub; MODEL StutterWriter
// @outside buffers longer than 4 bytes, more than 2 suspensions, sink errors
#[kani::proof]
#[kani::unwind(6)]
#[kani::stub(<wtransport_proto::bytes::IoWriteError as std::convert::From<std::io::Error>>::from, crate::common::io_write_err_stub)]
fn c16_async_put_buffer_stutter() {
    use wtransport_proto::bytes::BytesWriterAsync;
    let buf: [u8; 4] = kani::any();
    let mut w = StutterWriter::<4>::new(2);
    let r = drive(w.put_buffer(&buf), 3);
    assert!(matches!(r, Some(Ok(()))), "put_buffer did not complete on a healthy sink");
    assert!(w.off == 4 && eq_prefix(&w.data, &buf, 4), "put_buffer emitted different bytes than it was given");
    kani::cover!(w.cut_then_pending == 2, "two suspensions, each right after a partial write");
}

// @h props=C16,C01 tier=quick t=2400 mem=20 sub=async-writers-under-flow-control
// @fn wtransport-proto/src/bytes.rs BytesWriterAsync::put_varint PutVarint::poll
// @bound an arbitrary 62-bit varint written into the stuttering sink (at most 2 suspensions, one byte per write, 3 polls); unwind 10
// @oracle the sink ends up with exactly the reference encoding of the varint
// @assume From<io::Error> stub; MODEL StutterWriter
// @outside more than 2 suspensions, sink errors
#[kani::proof]
#[kani::unwind(10)]
#[kani::stub(<wtransport_proto::bytes::IoWriteError as std::convert::From<std::io::Error>>::from, crate::common::io_write_err_stub)]
fn c16_async_put_varint_stutter() {
    use wtransport_proto::bytes::BytesWriterAsync;
    let v = any_varint();
    let mut w = StutterWriter::<8>::new(2);
    let r = drive(w.put_varint(v), 3);
    assert!(matches!(r, Some(Ok(()))), "put_varint did not complete on a healthy sink");
    let mut refb = [0u8; 8];
    let rn = ref_varint_put(v.into_inner(), &mut refb);
    assert!(w.off == rn && eq_prefix(&w.data, &refb, rn), "put_varint emitted different bytes than the encoding");
    kani::cover!(rn == 8 && w.cut_then_pending == 2, "8-byte varint cut and suspended twice");
}

// @h props=C16,C14 tier=quick t=2400 mem=20 sub=async-writers-under-flow-control
// @fn wtransport-proto/src/frame.rs Frame::{write_async,write,new_data}; wtransport-proto/src/bytes.rs PutVarint PutBuffer
// @bound a DATA frame with a 2-byte symbolic payload written through the stuttering sink (at most 2 suspensions, one byte per write, 3 polls); unwind 4
// @oracle the bytes on the sink equal the bytes of the synchronous `Frame::write` (type, length, payload - each once)
// @assume From<io::Error> stub; MODEL StutterWriter
// @outside other frame kinds (same code path), longer payloads
#[kani::proof]
#[kani::unwind(5)]
#[kani::stub(<wtransport_proto::bytes::IoWriteError as std::convert::From<std::io::Error>>::from, crate::common::io_write_err_stub)]
fn c16_frame_write_async_stutter() {
    use wtransport_proto::bytes::BufferWriter;
    use wtransport_proto::frame::Frame;
    let p: [u8; 2] = kani::any();
    let f = Frame::new_data(std::borrow::Cow::Borrowed(&p[..]));
    let mut w = StutterWriter::<4>::new(2);
    let r = drive(f.write_async(&mut w), 3);
    assert!(matches!(r, Some(Ok(()))), "write_async did not complete on a healthy sink");
    let mut sync = [0u8; 4];
    let mut bw = BufferWriter::new(&mut sync);
    assert!(f.write(&mut bw).is_ok());
    let n = bw.offset();
    assert!(n == 4 && w.off == n, "async writer emitted a different number of bytes");
    assert!(eq_prefix(&w.data, &sync, n), "async writer emitted different bytes than the one-shot writer");
    kani::cover!(w.cut_then_pending >= 1 && w.pendings == 0, "payload cut and suspended");
}
