//! C01 — stream bytes arrive exactly, preamble invisible (the preamble mechanism: writer∘reader)
use crate::common::*;
use wtransport_proto::bytes::{BufferWriter, BytesWriter};
use wtransport_proto::error::ErrorCode;
use wtransport_proto::frame::{Frame, FrameKind};
use wtransport_proto::stream::Stream;
use wtransport_proto::stream_header::{StreamHeader, StreamKind};


/// a valid session id whose varint encoding has exactly 1 << CLS bytes (CLS = 0..=3)
fn session_id_of_class<const CLS: u8>() -> wtransport_proto::ids::SessionId {
    use wtransport_proto::ids::{SessionId, StreamId};
    use wtransport_proto::varint::VarInt;
    let q: u64 = kani::any();
    let v = q << 2;
    match CLS {
        0 => kani::assume(v < (1 << 6)),
        1 => kani::assume(v >= (1 << 6) && v < (1 << 14)),
        2 => kani::assume(v >= (1 << 14) && v < (1 << 30)),
        _ => kani::assume(v >= (1 << 30) && q <= (1u64 << 60) - 1),
    }
    SessionId::try_from_session_stream(StreamId::new(VarInt::try_from_u64(v).unwrap())).unwrap()
}

fn uni_preamble<const CLS: u8>() {
    let sid = session_id_of_class::<CLS>();
    let v = sid.into_u64();
    let hdr = StreamHeader::new_webtransport(sid);
    let size = wtransport_proto::stream::unilocal::StreamUniLocalQuic::upgrade_size(StreamHeader::new_webtransport(sid));
    let mut w = ByteWriter::<16>::new();
    let local = poll_once(Stream::open_uni().upgrade_async(hdr, &mut w)).unwrap();
    assert!(local.is_ok(), "opener failed on a healthy sink");
    let mut refb = [0u8; 16];
    let mut rn = ref_varint_put(0x54, &mut refb);
    rn += ref_varint_put(v, &mut refb[rn..]);
    assert!(w.off == rn && size == rn, "opener wrote a different number of bytes than the preamble");
    assert!(eq_prefix(&w.data, &refb, rn), "uni preamble differs from varint(0x54)||varint(session id)");
    // wire = preamble || application bytes
    let app: [u8; 4] = kani::any();
    let k: usize = kani::any();
    kani::assume(k <= 4);
    let mut wire = [0u8; 16];
    let mut i = 0;
    while i < rn {
        wire[i] = w.data[i];
        i += 1;
    }
    let mut i = 0;
    while i < k {
        wire[rn + i] = app[i];
        i += 1;
    }
    let mut rd = ByteReader::<16> { data: wire, len: rn + k, off: 0 };
    let remote = poll_once(Stream::accept_uni().upgrade_async(&mut rd)).unwrap();
    match remote {
        Ok(h3) => {
            assert!(matches!(h3.kind(), StreamKind::WebTransport), "WebTransport stream mis-typed");
            assert!(h3.session_id().unwrap().into_u64() == v, "session id altered");
            assert!(rd.off == rn, "acceptor swallowed application bytes or left preamble bytes behind");
            let wt = h3.upgrade();
            assert!(wt.session_id().into_u64() == v);
            // what the application will read next
            let mut i = 0;
            while i < k {
                assert!(rd.data[rd.off + i] == app[i], "application bytes altered");
                i += 1;
            }
            kani::cover!(k == 4 && app[0] >= 0xC0, "app bytes starting like an 8-byte varint");
            kani::cover!(k == 0, "no application bytes");
            kani::cover!(k >= 2 && app[0] == 0x40 && app[1] == 0x54, "application bytes that look like another preamble");
        }
        Err(_) => assert!(false, "acceptor refused a preamble written by the opener"),
    }
}

/// bidirectional preamble, split in two halves that compose through the reference bytes (one harness holding both the
/// async writer and the async typestate reader exhausted 20 GB): WRITER = real opener output == reference preamble;
/// READER = real acceptor on reference preamble || application bytes
fn bi_preamble_writer<const CLS: u8>() {
    let sid = session_id_of_class::<CLS>();
    let v = sid.into_u64();
    let h3 = Stream::open_bi().upgrade();
    let size = h3.upgrade_size(sid);
    let mut w = ByteWriter::<16>::new();
    let local = poll_once(h3.upgrade_async(sid, &mut w)).unwrap();
    match local {
        Ok(wt) => assert!(wt.session_id().into_u64() == v),
        Err(_) => assert!(false, "opener failed on a healthy sink"),
    }
    let mut refb = [0u8; 16];
    let mut rn = ref_varint_put(0x41, &mut refb);
    rn += ref_varint_put(v, &mut refb[rn..]);
    assert!(w.off == rn && size == rn, "opener wrote a different number of bytes than the preamble");
    assert!(eq_prefix(&w.data, &refb, rn), "bidi preamble differs from varint(0x41)||varint(session id)");
    kani::cover!(true, "preamble written");
}

fn bi_preamble_reader<const CLS: u8>() {
    let sid = session_id_of_class::<CLS>();
    let v = sid.into_u64();
    let mut wire = [0u8; 16];
    let mut rn = ref_varint_put(0x41, &mut wire);
    rn += ref_varint_put(v, &mut wire[rn..]);
    let app: [u8; 4] = kani::any();
    let k: usize = kani::any();
    kani::assume(k <= 4);
    let mut i = 0;
    while i < k {
        wire[rn + i] = app[i];
        i += 1;
    }
    let mut rd = ByteReader::<16> { data: wire, len: rn + k, off: 0 };
    let mut remote = Stream::accept_bi().upgrade();
    let first = poll_once(remote.read_frame_async(&mut rd)).unwrap();
    match first {
        Ok(f) => {
            assert!(matches!(f.kind(), FrameKind::WebTransport), "first frame is not the WT signal");
            assert!(f.session_id().unwrap().into_u64() == v, "session id altered");
            assert!(rd.off == rn, "acceptor swallowed application bytes or left preamble bytes behind");
            let wt = remote.upgrade(f.session_id().unwrap());
            assert!(wt.session_id().into_u64() == v);
            let mut i = 0;
            while i < k {
                assert!(rd.data[rd.off + i] == app[i], "application bytes altered");
                i += 1;
            }
            kani::cover!(k == 4, "4 application bytes");
            kani::cover!(k >= 2 && app[0] == 0x00 && app[1] == 0x02, "application bytes that look like a DATA frame");
            core::mem::forget(f);
        }
        Err(_) => assert!(false, "acceptor refused a well-formed preamble"),
    }
}

// @h props=C01,C16 tier=quick t=2400 mem=20 sub=uni-preamble
// @fn wtransport-proto/src/stream.rs StreamUniLocalQuic::{upgrade_async,upgrade_size} StreamUniRemoteQuic::upgrade_async StreamUniRemoteH3::{kind,session_id,upgrade}; wtransport-proto/src/stream_header.rs StreamHeader::{write_async,read_async}; wtransport-proto/src/bytes.rs PutVarint GetVarint
// @bound every session id whose varint is 1-byte long (classes 1- and 8-byte in the quick tier, 2- and 4-byte in thorough); 0..=4 application bytes after the preamble, symbolic (bytes that look like a varint prefix 0xC0.., a frame or another preamble included); byte-wise delivery (other chunkings / Pending: C15 L1)
// @oracle the opener writes exactly varint(0x54)||varint(sid) (reference encoder) == upgrade_size bytes and nothing else; the acceptor yields a WebTransport stream with the same session id having consumed exactly those bytes; the bytes that follow are the application bytes, untouched and in order
// @assume From<io::Error> stubs; model source/sink never fail
// @outside ordered reliable delivery, flow control, FIN, concurrency between streams (quinn); hand-off through the worker's channels (C08, not applicable)
#[kani::proof]
#[kani::unwind(12)]
#[kani::stub(<wtransport_proto::bytes::IoReadError as std::convert::From<std::io::Error>>::from, crate::common::io_read_err_stub)]
#[kani::stub(<wtransport_proto::bytes::IoWriteError as std::convert::From<std::io::Error>>::from, crate::common::io_write_err_stub)]
fn c01_uni_preamble_id1() {
    uni_preamble::<0>()
}

// @h props=C01,C16 tier=thorough t=2400 mem=20 sub=uni-preamble
// @fn wtransport-proto/src/stream.rs StreamUniLocalQuic::{upgrade_async,upgrade_size} StreamUniRemoteQuic::upgrade_async StreamUniRemoteH3::{kind,session_id,upgrade}; wtransport-proto/src/stream_header.rs StreamHeader::{write_async,read_async}; wtransport-proto/src/bytes.rs PutVarint GetVarint
// @bound every session id whose varint is 2-byte long (classes 1- and 8-byte in the quick tier, 2- and 4-byte in thorough); 0..=4 application bytes after the preamble, symbolic (bytes that look like a varint prefix 0xC0.., a frame or another preamble included); byte-wise delivery (other chunkings / Pending: C15 L1)
// @oracle the opener writes exactly varint(0x54)||varint(sid) (reference encoder) == upgrade_size bytes and nothing else; the acceptor yields a WebTransport stream with the same session id having consumed exactly those bytes; the bytes that follow are the application bytes, untouched and in order
// @assume From<io::Error> stubs; model source/sink never fail
// @outside ordered reliable delivery, flow control, FIN, concurrency between streams (quinn); hand-off through the worker's channels (C08, not applicable)
#[kani::proof]
#[kani::unwind(12)]
#[kani::stub(<wtransport_proto::bytes::IoReadError as std::convert::From<std::io::Error>>::from, crate::common::io_read_err_stub)]
#[kani::stub(<wtransport_proto::bytes::IoWriteError as std::convert::From<std::io::Error>>::from, crate::common::io_write_err_stub)]
fn c01_uni_preamble_id2() {
    uni_preamble::<1>()
}

// @h props=C01,C16 tier=thorough t=2400 mem=20 sub=uni-preamble
// @fn wtransport-proto/src/stream.rs StreamUniLocalQuic::{upgrade_async,upgrade_size} StreamUniRemoteQuic::upgrade_async StreamUniRemoteH3::{kind,session_id,upgrade}; wtransport-proto/src/stream_header.rs StreamHeader::{write_async,read_async}; wtransport-proto/src/bytes.rs PutVarint GetVarint
// @bound every session id whose varint is 4-byte long (classes 1- and 8-byte in the quick tier, 2- and 4-byte in thorough); 0..=4 application bytes after the preamble, symbolic (bytes that look like a varint prefix 0xC0.., a frame or another preamble included); byte-wise delivery (other chunkings / Pending: C15 L1)
// @oracle the opener writes exactly varint(0x54)||varint(sid) (reference encoder) == upgrade_size bytes and nothing else; the acceptor yields a WebTransport stream with the same session id having consumed exactly those bytes; the bytes that follow are the application bytes, untouched and in order
// @assume From<io::Error> stubs; model source/sink never fail
// @outside ordered reliable delivery, flow control, FIN, concurrency between streams (quinn); hand-off through the worker's channels (C08, not applicable)
#[kani::proof]
#[kani::unwind(12)]
#[kani::stub(<wtransport_proto::bytes::IoReadError as std::convert::From<std::io::Error>>::from, crate::common::io_read_err_stub)]
#[kani::stub(<wtransport_proto::bytes::IoWriteError as std::convert::From<std::io::Error>>::from, crate::common::io_write_err_stub)]
fn c01_uni_preamble_id4() {
    uni_preamble::<2>()
}

// @h props=C01,C16 tier=quick t=2400 mem=20 sub=uni-preamble
// @fn wtransport-proto/src/stream.rs StreamUniLocalQuic::{upgrade_async,upgrade_size} StreamUniRemoteQuic::upgrade_async StreamUniRemoteH3::{kind,session_id,upgrade}; wtransport-proto/src/stream_header.rs StreamHeader::{write_async,read_async}; wtransport-proto/src/bytes.rs PutVarint GetVarint
// @bound every session id whose varint is 8-byte long (classes 1- and 8-byte in the quick tier, 2- and 4-byte in thorough); 0..=4 application bytes after the preamble, symbolic (bytes that look like a varint prefix 0xC0.., a frame or another preamble included); byte-wise delivery (other chunkings / Pending: C15 L1)
// @oracle the opener writes exactly varint(0x54)||varint(sid) (reference encoder) == upgrade_size bytes and nothing else; the acceptor yields a WebTransport stream with the same session id having consumed exactly those bytes; the bytes that follow are the application bytes, untouched and in order
// @assume From<io::Error> stubs; model source/sink never fail
// @outside ordered reliable delivery, flow control, FIN, concurrency between streams (quinn); hand-off through the worker's channels (C08, not applicable)
#[kani::proof]
#[kani::unwind(12)]
#[kani::stub(<wtransport_proto::bytes::IoReadError as std::convert::From<std::io::Error>>::from, crate::common::io_read_err_stub)]
#[kani::stub(<wtransport_proto::bytes::IoWriteError as std::convert::From<std::io::Error>>::from, crate::common::io_write_err_stub)]
fn c01_uni_preamble_id8() {
    uni_preamble::<3>()
}

// @h props=C01,C16 tier=quick t=2400 mem=20 sub=bi-preamble
// @fn wtransport-proto/src/stream.rs StreamBiLocalH3::{upgrade_async,upgrade_size} StreamBiRemoteH3::{read_frame_async,upgrade}; wtransport-proto/src/frame.rs Frame::{write_async,read_async,new_webtransport}
// @bound every session id whose varint is 1-byte long (classes 1- and 8-byte in the quick tier, 2- and 4-byte in thorough); 0..=4 application bytes after the preamble, symbolic (bytes that look like a varint prefix 0xC0.., a frame or another preamble included); byte-wise delivery (other chunkings / Pending: C15 L1)
// @oracle reader half: on the reference preamble varint(0x41)||varint(sid) (what the writer half c01_bi_preamble_writer_* proves the opener emits) followed by the application bytes, the acceptor's first frame is the WT signal with the same session id, exactly the preamble is consumed, and the bytes that follow are the application bytes, untouched and in order
// @assume From<io::Error> stubs; model source/sink never fail
// @outside ordered reliable delivery, flow control, FIN, concurrency between streams (quinn); hand-off through the worker's channels (C08, not applicable)
// @unwindset read_frame_async:1 GetBuffer:2
#[kani::proof]
#[kani::unwind(12)]
#[kani::stub(<wtransport_proto::bytes::IoReadError as std::convert::From<std::io::Error>>::from, crate::common::io_read_err_stub)]
#[kani::stub(<wtransport_proto::bytes::IoWriteError as std::convert::From<std::io::Error>>::from, crate::common::io_write_err_stub)]
fn c01_bi_preamble_id1() {
    bi_preamble_reader::<0>()
}

// @h props=C01,C16 tier=thorough t=2400 mem=20 sub=bi-preamble
// @fn wtransport-proto/src/stream.rs StreamBiLocalH3::{upgrade_async,upgrade_size} StreamBiRemoteH3::{read_frame_async,upgrade}; wtransport-proto/src/frame.rs Frame::{write_async,read_async,new_webtransport}
// @bound every session id whose varint is 2-byte long (classes 1- and 8-byte in the quick tier, 2- and 4-byte in thorough); 0..=4 application bytes after the preamble, symbolic (bytes that look like a varint prefix 0xC0.., a frame or another preamble included); byte-wise delivery (other chunkings / Pending: C15 L1)
// @oracle reader half: on the reference preamble varint(0x41)||varint(sid) (what the writer half c01_bi_preamble_writer_* proves the opener emits) followed by the application bytes, the acceptor's first frame is the WT signal with the same session id, exactly the preamble is consumed, and the bytes that follow are the application bytes, untouched and in order
// @assume From<io::Error> stubs; model source/sink never fail
// @outside ordered reliable delivery, flow control, FIN, concurrency between streams (quinn); hand-off through the worker's channels (C08, not applicable)
// @unwindset read_frame_async:1 GetBuffer:2
#[kani::proof]
#[kani::unwind(12)]
#[kani::stub(<wtransport_proto::bytes::IoReadError as std::convert::From<std::io::Error>>::from, crate::common::io_read_err_stub)]
#[kani::stub(<wtransport_proto::bytes::IoWriteError as std::convert::From<std::io::Error>>::from, crate::common::io_write_err_stub)]
fn c01_bi_preamble_id2() {
    bi_preamble_reader::<1>()
}

// @h props=C01,C16 tier=thorough t=2400 mem=20 sub=bi-preamble
// @fn wtransport-proto/src/stream.rs StreamBiLocalH3::{upgrade_async,upgrade_size} StreamBiRemoteH3::{read_frame_async,upgrade}; wtransport-proto/src/frame.rs Frame::{write_async,read_async,new_webtransport}
// @bound every session id whose varint is 4-byte long (classes 1- and 8-byte in the quick tier, 2- and 4-byte in thorough); 0..=4 application bytes after the preamble, symbolic (bytes that look like a varint prefix 0xC0.., a frame or another preamble included); byte-wise delivery (other chunkings / Pending: C15 L1)
// @oracle reader half: on the reference preamble varint(0x41)||varint(sid) (what the writer half c01_bi_preamble_writer_* proves the opener emits) followed by the application bytes, the acceptor's first frame is the WT signal with the same session id, exactly the preamble is consumed, and the bytes that follow are the application bytes, untouched and in order
// @assume From<io::Error> stubs; model source/sink never fail
// @outside ordered reliable delivery, flow control, FIN, concurrency between streams (quinn); hand-off through the worker's channels (C08, not applicable)
// @unwindset read_frame_async:1 GetBuffer:2
#[kani::proof]
#[kani::unwind(12)]
#[kani::stub(<wtransport_proto::bytes::IoReadError as std::convert::From<std::io::Error>>::from, crate::common::io_read_err_stub)]
#[kani::stub(<wtransport_proto::bytes::IoWriteError as std::convert::From<std::io::Error>>::from, crate::common::io_write_err_stub)]
fn c01_bi_preamble_id4() {
    bi_preamble_reader::<2>()
}

// @h props=C01,C16 tier=quick t=2400 mem=20 sub=bi-preamble
// @fn wtransport-proto/src/stream.rs StreamBiLocalH3::{upgrade_async,upgrade_size} StreamBiRemoteH3::{read_frame_async,upgrade}; wtransport-proto/src/frame.rs Frame::{write_async,read_async,new_webtransport}
// @bound every session id whose varint is 8-byte long (classes 1- and 8-byte in the quick tier, 2- and 4-byte in thorough); 0..=4 application bytes after the preamble, symbolic (bytes that look like a varint prefix 0xC0.., a frame or another preamble included); byte-wise delivery (other chunkings / Pending: C15 L1)
// @oracle reader half: on the reference preamble varint(0x41)||varint(sid) (what the writer half c01_bi_preamble_writer_* proves the opener emits) followed by the application bytes, the acceptor's first frame is the WT signal with the same session id, exactly the preamble is consumed, and the bytes that follow are the application bytes, untouched and in order
// @assume From<io::Error> stubs; model source/sink never fail
// @outside ordered reliable delivery, flow control, FIN, concurrency between streams (quinn); hand-off through the worker's channels (C08, not applicable)
// @unwindset read_frame_async:1 GetBuffer:2
#[kani::proof]
#[kani::unwind(12)]
#[kani::stub(<wtransport_proto::bytes::IoReadError as std::convert::From<std::io::Error>>::from, crate::common::io_read_err_stub)]
#[kani::stub(<wtransport_proto::bytes::IoWriteError as std::convert::From<std::io::Error>>::from, crate::common::io_write_err_stub)]
fn c01_bi_preamble_id8() {
    bi_preamble_reader::<3>()
}

// @h props=C01,C16 tier=quick t=2400 mem=20 sub=bi-preamble-writer
// @fn wtransport-proto/src/stream.rs StreamBiLocalH3::{upgrade_async,upgrade_size}; wtransport-proto/src/frame.rs Frame::{write_async,new_webtransport}; wtransport-proto/src/bytes.rs PutVarint
// @bound every session id whose varint is 1 byte(s) long; byte-wise model sink
// @oracle the opener writes exactly varint(0x41)||varint(sid) (reference encoder) == upgrade_size bytes and nothing else
// @assume From<io::Error> stubs; model sink never fails
#[kani::proof]
#[kani::unwind(12)]
#[kani::stub(<wtransport_proto::bytes::IoReadError as std::convert::From<std::io::Error>>::from, crate::common::io_read_err_stub)]
#[kani::stub(<wtransport_proto::bytes::IoWriteError as std::convert::From<std::io::Error>>::from, crate::common::io_write_err_stub)]
fn c01_bi_preamble_writer_id1() {
    bi_preamble_writer::<0>()
}

// @h props=C01,C16 tier=quick t=2400 mem=20 sub=bi-preamble-writer
// @fn wtransport-proto/src/stream.rs StreamBiLocalH3::{upgrade_async,upgrade_size}; wtransport-proto/src/frame.rs Frame::{write_async,new_webtransport}; wtransport-proto/src/bytes.rs PutVarint
// @bound every session id whose varint is 8 byte(s) long; byte-wise model sink
// @oracle the opener writes exactly varint(0x41)||varint(sid) (reference encoder) == upgrade_size bytes and nothing else
// @assume From<io::Error> stubs; model sink never fails
#[kani::proof]
#[kani::unwind(12)]
#[kani::stub(<wtransport_proto::bytes::IoReadError as std::convert::From<std::io::Error>>::from, crate::common::io_read_err_stub)]
#[kani::stub(<wtransport_proto::bytes::IoWriteError as std::convert::From<std::io::Error>>::from, crate::common::io_write_err_stub)]
fn c01_bi_preamble_writer_id8() {
    bi_preamble_writer::<3>()
}

// @h props=C01,C16 tier=thorough t=2400 mem=20 sub=bi-preamble-writer
// @fn wtransport-proto/src/stream.rs StreamBiLocalH3::{upgrade_async,upgrade_size}; wtransport-proto/src/frame.rs Frame::{write_async,new_webtransport}; wtransport-proto/src/bytes.rs PutVarint
// @bound every session id whose varint is 2 byte(s) long; byte-wise model sink
// @oracle the opener writes exactly varint(0x41)||varint(sid) (reference encoder) == upgrade_size bytes and nothing else
// @assume From<io::Error> stubs; model sink never fails
#[kani::proof]
#[kani::unwind(12)]
#[kani::stub(<wtransport_proto::bytes::IoReadError as std::convert::From<std::io::Error>>::from, crate::common::io_read_err_stub)]
#[kani::stub(<wtransport_proto::bytes::IoWriteError as std::convert::From<std::io::Error>>::from, crate::common::io_write_err_stub)]
fn c01_bi_preamble_writer_id2() {
    bi_preamble_writer::<1>()
}

// @h props=C01,C16 tier=thorough t=2400 mem=20 sub=bi-preamble-writer
// @fn wtransport-proto/src/stream.rs StreamBiLocalH3::{upgrade_async,upgrade_size}; wtransport-proto/src/frame.rs Frame::{write_async,new_webtransport}; wtransport-proto/src/bytes.rs PutVarint
// @bound every session id whose varint is 4 byte(s) long; byte-wise model sink
// @oracle the opener writes exactly varint(0x41)||varint(sid) (reference encoder) == upgrade_size bytes and nothing else
// @assume From<io::Error> stubs; model sink never fails
#[kani::proof]
#[kani::unwind(12)]
#[kani::stub(<wtransport_proto::bytes::IoReadError as std::convert::From<std::io::Error>>::from, crate::common::io_read_err_stub)]
#[kani::stub(<wtransport_proto::bytes::IoWriteError as std::convert::From<std::io::Error>>::from, crate::common::io_write_err_stub)]
fn c01_bi_preamble_writer_id4() {
    bi_preamble_writer::<2>()
}

// @h props=C01 tier=quick t=2400 sub=sync-preamble
// @fn wtransport-proto/src/stream.rs StreamUniLocalQuic::upgrade StreamBiLocalH3::upgrade StreamUniRemoteQuic::upgrade StreamBiRemoteH3::read_frame
// @bound every session id; one-shot (buffer) variants of both preambles with 2 trailing application bytes
// @oracle same as the async harnesses: bytes == reference preamble, reader consumes exactly the preamble
#[kani::proof]
#[kani::unwind(12)]
fn c01_sync_preamble() {
    use wtransport_proto::stream::uniremote::MaybeUpgradeH3;
    let sid = any_session_id();
    let v = sid.into_u64();
    let app: [u8; 2] = kani::any();
    // uni
    let mut buf = [0u8; 16];
    let mut w = BufferWriter::new(&mut buf);
    let _l = Stream::open_uni().upgrade(StreamHeader::new_webtransport(sid), &mut w);
    let n = w.offset();
    let mut refb = [0u8; 16];
    let mut rn = ref_varint_put(0x54, &mut refb);
    rn += ref_varint_put(v, &mut refb[rn..]);
    assert!(n == rn && eq_prefix(&buf, &refb, n));
    buf[n] = app[0];
    buf[n + 1] = app[1];
    let mut rd: &[u8] = &buf[..n + 2];
    match Stream::accept_uni().upgrade(&mut rd) {
        Ok(MaybeUpgradeH3::H3(h)) => {
            assert!(h.session_id().unwrap().into_u64() == v && rd.len() == 2 && rd[0] == app[0] && rd[1] == app[1]);
        }
        _ => assert!(false, "uni preamble refused"),
    }
    // bidi
    let mut buf2 = [0u8; 16];
    let mut w2 = BufferWriter::new(&mut buf2);
    let _l2 = Stream::open_bi().upgrade().upgrade(sid, &mut w2);
    let n2 = w2.offset();
    let mut refb2 = [0u8; 16];
    let mut rn2 = ref_varint_put(0x41, &mut refb2);
    rn2 += ref_varint_put(v, &mut refb2[rn2..]);
    assert!(n2 == rn2 && eq_prefix(&buf2, &refb2, n2));
    buf2[n2] = app[0];
    buf2[n2 + 1] = app[1];
    let mut rd2: &[u8] = &buf2[..n2 + 2];
    match Stream::accept_bi().upgrade().read_frame(&mut rd2) {
        Ok(Some(f)) => {
            assert!(f.session_id().unwrap().into_u64() == v && rd2.len() == 2 && rd2[0] == app[0] && rd2[1] == app[1]);
        }
        _ => assert!(false, "bidi preamble refused"),
    }
    kani::cover!(rn == 10, "8-byte id");
    kani::cover!(rn == 3, "1-byte id");
}

// @h props=C01 tier=quick t=900 expect=fail sub=twin
// @fn wtransport-proto/src/stream.rs StreamUniRemoteQuic::upgrade
// @bound twin: claims the acceptor always leaves the input untouched; must be refuted
#[kani::proof]
#[kani::unwind(8)]
fn c01_twin_must_fail() {
    let mut rd: &[u8] = &[0x40, 0x54, 0x00, 0xAA];
    let _ = Stream::accept_uni().upgrade(&mut rd);
    assert!(rd.len() == 4, "twin: wrong oracle");
}
