//! C11 — decoding untrusted bytes is total, bounded and invariant-preserving (E1 part: every decoder that
//! does not need a HashMap; SETTINGS / field sections are in the mirror crate)
use crate::c14::ref_prefix_int;
use crate::common::*;
use std::borrow::Cow;
use wtransport_proto::bytes::{BufferReader, BufferWriter, BytesReader, BytesWriter};
use wtransport_proto::capsule::capsules::CloseWebTransportSession;
use wtransport_proto::capsule::Capsule;
use wtransport_proto::datagram::Datagram;
use wtransport_proto::error::ErrorCode;
use wtransport_proto::frame::{self, Frame, FrameKind};
use wtransport_proto::qpack::DecodingError;
use wtransport_proto::stream_header::{self, StreamHeader, StreamKind};
use wtransport_proto::varint::VarInt;
use wtransport_proto::verif_hooks::qpack as q;

// @h props=C11,C15 tier=quick t=600 sub=varint-readers
// @fn wtransport-proto/src/bytes.rs BufferReader::{get_varint,get_bytes,offset} <&[u8] as BytesReader>::{get_varint,get_bytes}; wtransport-proto/src/varint.rs VarInt::parse_size
// @bound every byte string of length 0..=9; every requested get_bytes length 0..=12
// @oracle RFC 9000 §16 reference decoder: Some => same value < 2^62, consumed == 1<<(b0>>6); None <=> too short, position unchanged
#[kani::proof]
#[kani::unwind(12)]
fn c11_varint_readers() {
    let buf: [u8; 9] = kani::any();
    let len: usize = kani::any();
    kani::assume(len <= 9);
    let data = &buf[..len];
    let expect = ref_varint_get(data);
    let mut r = BufferReader::new(data);
    let got = r.get_varint();
    let mut s: &[u8] = data;
    let got2 = s.get_varint();
    match expect {
        Some((v, n)) => {
            let g = got.expect("buffered reader refused a complete varint");
            let g2 = got2.expect("slice reader refused a complete varint");
            assert!(g.into_inner() == v && g2.into_inner() == v, "wrong varint value");
            assert!(v <= VMAX);
            assert!(r.offset() == n && s.len() == len - n, "consumed != encoded length");
            kani::cover!(n == 8, "8-byte varint");
        }
        None => {
            assert!(got.is_none() && got2.is_none(), "value from an incomplete varint");
            assert!(r.offset() == 0 && s.len() == len, "incomplete varint consumed input");
            kani::cover!(len == 7 && buf[0] >= 0xC0, "truncated 8-byte varint");
        }
    }
    // get_bytes: all or nothing
    let want: usize = kani::any();
    kani::assume(want <= 12);
    let before = r.offset();
    let rem = len - before;
    match r.get_bytes(want) {
        Some(b) => {
            assert!(want <= rem && b.len() == want && r.offset() == before + want);
        }
        None => {
            assert!(want > rem && r.offset() == before, "get_bytes consumed on failure");
        }
    }
}

#[derive(PartialEq, Eq, Clone, Copy)]
pub enum RefFrame {
    NeedMore,
    Unknown { consumed: usize },
    InvalidSid,
    TooBig,
    Wt { sid: u64, consumed: usize },
    Plain { type_id: u64, off: usize, len: usize, consumed: usize },
}

/// independent frame parser from RFC 9114 §7.1 + draft-ietf-webtrans-http3 (WT signal 0x41 carries a session id, no length)
pub fn ref_frame(b: &[u8]) -> RefFrame {
    let Some((t, n1)) = ref_varint_get(b) else { return RefFrame::NeedMore };
    let known = t == 0x00 || t == 0x01 || t == 0x04 || t == 0x41 || (t >= 0x21 && (t - 0x21) % 0x1f == 0);
    let Some((x, n2)) = ref_varint_get(&b[n1..]) else { return RefFrame::NeedMore };
    if t == 0x41 {
        if x & 3 != 0 {
            return RefFrame::InvalidSid;
        }
        return RefFrame::Wt { sid: x, consumed: n1 + n2 };
    }
    if x > 4096 {
        return RefFrame::TooBig;
    }
    let l = x as usize;
    if b.len() - n1 - n2 < l {
        return RefFrame::NeedMore;
    }
    if !known {
        // RFC 9114 §9: frames of unknown type are ignored *as a whole*: reported only once type, length and payload are consumed
        return RefFrame::Unknown { consumed: n1 + n2 + l };
    }
    RefFrame::Plain { type_id: t, off: n1 + n2, len: l, consumed: n1 + n2 + l }
}

pub fn kind_id(k: FrameKind) -> u64 {
    match k {
        FrameKind::Data => 0,
        FrameKind::Headers => 1,
        FrameKind::Settings => 4,
        FrameKind::WebTransport => 0x41,
        FrameKind::Exercise(id) => id.into_inner(),
    }
}

fn frame_read_total<const N: usize>() {
    let buf: [u8; N] = kani::any();
    let len: usize = kani::any();
    kani::assume(len <= N);
    let data = &buf[..len];
    let expect = ref_frame(data);
    let mut s: &[u8] = data;
    let got = Frame::read(&mut s);
    let consumed = len - s.len();
    match (got, expect) {
        (Ok(None), RefFrame::NeedMore) => {
            kani::cover!(len >= 3, "need more data after type+length");
        }
        (Err(frame::ParseError::UnknownFrame), RefFrame::Unknown { consumed: c }) => {
            assert!(consumed == c, "unknown frame not consumed as a whole");
            kani::cover!(c > 3, "unknown frame with payload");
        }
        (Err(frame::ParseError::InvalidSessionId), RefFrame::InvalidSid) => {
            kani::cover!(true, "invalid session id");
        }
        (Err(frame::ParseError::PayloadTooBig), RefFrame::TooBig) => {
            kani::cover!(len < 8, "length > 4096 rejected without the payload being present");
        }
        (Ok(Some(f)), RefFrame::Wt { sid, consumed: c }) => {
            assert!(matches!(f.kind(), FrameKind::WebTransport));
            let s = f.session_id().unwrap().into_u64();
            assert!(s == sid && s & 3 == 0 && s <= VMAX, "session id invariant");
            assert!(consumed == c);
            kani::cover!(c == 10, "WT frame with 8-byte id");
        }
        (Ok(Some(f)), RefFrame::Plain { type_id, off, len: l, consumed: c }) => {
            assert!(kind_id(f.kind()) == type_id, "wrong frame kind");
            assert!(f.payload().len() == l && l <= 4096 && l <= len, "payload length");
            assert!(eq_prefix(f.payload(), &data[off..], l), "payload is not the input slice");
            assert!(consumed == c && c <= len, "consumed");
            kani::cover!(l == N - 2, "payload fills the input");
            kani::cover!(type_id > 0x40, "multi-byte frame type");
        }
        _ => assert!(false, "Frame::read disagrees with the reference parser"),
    }
}

// @h props=C11,C12,C14 tier=quick t=900 sub=frame
// @fn wtransport-proto/src/frame.rs Frame::read FrameKind::parse; wtransport-proto/src/bytes.rs <&[u8] as BytesReader>::{get_varint,get_bytes}; wtransport-proto/src/ids.rs SessionId::try_from_varint
// @bound every byte string of length 0..=12
// @oracle independent RFC 9114 frame parser: same verdict (value / need-more / UnknownFrame after the whole frame / InvalidSessionId / PayloadTooBig), payload is exactly the input slice, <= 4096, consumed <= len; length > 4096 rejected before the payload is looked at; no panic/overflow reachable in /repo code
// @outside inputs > 12 bytes (thorough 16)
#[kani::proof]
#[kani::unwind(14)]
fn c11_frame_read_12() {
    frame_read_total::<12>()
}

// @h props=C11 tier=thorough t=3000 sub=frame
// @fn wtransport-proto/src/frame.rs Frame::read
// @bound every byte string of length 0..=16
// @oracle as c11_frame_read_12
#[kani::proof]
#[kani::unwind(18)]
fn c11_frame_read_16() {
    frame_read_total::<16>()
}

// @h props=C11 tier=quick t=900 sub=stream-header
// @fn wtransport-proto/src/stream_header.rs StreamHeader::read StreamKind::parse
// @bound every byte string of length 0..=16
// @oracle independent parser: type in {0,2,3,0x54,GREASE} else UnknownStream; 0x54 followed by a session id with id mod 4 == 0 else InvalidSessionId; consumed == encoded size <= MAX_SIZE
#[kani::proof]
#[kani::unwind(18)]
fn c11_stream_header_read() {
    let buf: [u8; 16] = kani::any();
    let len: usize = kani::any();
    kani::assume(len <= 16);
    let data = &buf[..len];
    let mut s: &[u8] = data;
    let got = StreamHeader::read(&mut s);
    let consumed = len - s.len();
    match ref_varint_get(data) {
        None => assert!(matches!(got, Ok(None)), "value or error from an incomplete type"),
        Some((t, n1)) => {
            let known = t == 0 || t == 2 || t == 3 || t == 0x54 || (t >= 0x21 && (t - 0x21) % 0x1f == 0);
            if !known {
                assert!(matches!(got, Err(stream_header::ParseError::UnknownStream)));
                kani::cover!(true, "unknown stream type");
            } else if t == 0x54 {
                match ref_varint_get(&data[n1..]) {
                    None => assert!(matches!(got, Ok(None)), "value or error from an incomplete session id"),
                    Some((sid, n2)) => {
                        if sid & 3 != 0 {
                            assert!(matches!(got, Err(stream_header::ParseError::InvalidSessionId)));
                        } else {
                            match got {
                                Ok(Some(h)) => {
                                    assert!(matches!(h.kind(), StreamKind::WebTransport));
                                    assert!(h.session_id().unwrap().into_u64() == sid);
                                    assert!(consumed == n1 + n2 && consumed <= StreamHeader::MAX_SIZE);
                                    kani::cover!(n2 == 8, "8-byte session id");
                                }
                                _ => assert!(false, "valid WT header refused"),
                            }
                        }
                    }
                }
            } else {
                match got {
                    Ok(Some(h)) => {
                        let ok = match h.kind() {
                            StreamKind::Control => t == 0,
                            StreamKind::QPackEncoder => t == 2,
                            StreamKind::QPackDecoder => t == 3,
                            StreamKind::Exercise(id) => id.into_inner() == t,
                            StreamKind::WebTransport => false,
                        };
                        assert!(ok, "wrong stream kind");
                        assert!(h.session_id().is_none() && consumed == n1);
                        kani::cover!(n1 == 8, "8-byte GREASE stream type");
                    }
                    _ => assert!(false, "valid header refused"),
                }
            }
        }
    }
}

// @h props=C11,C03,C17 tier=quick t=600 sub=datagram
// @fn wtransport-proto/src/datagram.rs Datagram::read; wtransport-proto/src/ids.rs QStreamId::try_from_varint
// @bound every byte string of length 0..=12
// @oracle Ok <=> a complete varint q <= 2^60-1 leads the input; then qstream id == q and payload == the exact suffix; otherwise H3_DATAGRAM_ERROR; never a panic
#[kani::proof]
#[kani::unwind(14)]
fn c11_datagram_read() {
    let buf: [u8; 12] = kani::any();
    let len: usize = kani::any();
    kani::assume(len <= 12);
    let data = &buf[..len];
    let got = Datagram::read(data);
    match ref_varint_get(data) {
        Some((qv, n)) if qv <= (1u64 << 60) - 1 => match got {
            Ok(d) => {
                assert!(d.qstream_id().into_u64() == qv, "wrong quarter stream id");
                assert!(d.payload().len() == len - n, "payload is not the suffix");
                assert!(eq_prefix(d.payload(), &data[n..], len - n), "payload bytes altered");
                assert!(d.qstream_id().into_session_id().into_u64() == qv << 2);
                kani::cover!(n == 8 && len == 12, "8-byte id with payload");
                kani::cover!(len == n, "empty payload");
            }
            Err(_) => assert!(false, "valid datagram refused"),
        },
        Some(_) => {
            assert!(matches!(got, Err(ErrorCode::Datagram)), "quarter stream id > 2^60-1 accepted");
            kani::cover!(true, "out-of-range quarter id");
        }
        None => {
            assert!(matches!(got, Err(ErrorCode::Datagram)));
            kani::cover!(len == 0, "empty datagram");
        }
    }
}

fn qpack_decode_integer_total<const N: usize, const L: usize>() {
    let buf: [u8; L] = kani::any();
    let len: usize = kani::any();
    kani::assume(len <= L);
    let data = &buf[..len];
    let mut s: &[u8] = data;
    let got = q::decode_integer::<N>(&mut s);
    let consumed = len - s.len();
    match ref_prefix_int(data, N as u32) {
        None => {
            // truncated: an error (UnexpectedFin, or IntegerOverflow detected earlier), never a value
            assert!(got.is_err(), "value decoded from a truncated integer");
            kani::cover!(len == L, "continuation run to the end of input");
        }
        Some((rf, rv, rc)) => match got {
            Ok((f, v)) => {
                assert!(rv <= usize::MAX as u128, "integer too large to represent was not rejected (silently wrong value)");
                assert!(v as u128 == rv, "wrong integer value");
                assert!(f == rf, "wrong flags");
                assert!(consumed == rc, "consumed != encoded length");
                kani::cover!(rc >= 10, "long encoding accepted");
            }
            Err(DecodingError::IntegerOverflow) => {
                // acceptable iff not representable, or the encoding is longer than any usize needs (zero padded, > 10 octets)
                assert!(rv > usize::MAX as u128 || rc > 11, "representable integer rejected as overflow");
                kani::cover!(rv > usize::MAX as u128, "overflow rejected");
            }
            Err(_) => assert!(false, "complete integer refused with a wrong error"),
        },
    }
}

// @h props=C11 tier=quick t=900 sub=qpack-int
// @fn wtransport-proto/src/qpack.rs Decoder::decode_integer::<7>
// @bound every byte string of length 0..=12 (covers the longest usize encoding 1+10 octets and one octet more)
// @oracle RFC 7541 §5.1 reference in u128: Ok(v) => v exact and representable, consumed exact; not representable => IntegerOverflow; truncated => error; never a panic (dev) nor a wrapped value (release)
// @outside encodings longer than 12 octets
#[kani::proof]
#[kani::unwind(14)]
fn c11_qpack_decode_integer_n7() {
    qpack_decode_integer_total::<7, 12>()
}

// @h props=C11 tier=quick t=900 sub=qpack-int
// @fn wtransport-proto/src/qpack.rs Decoder::decode_integer::<3>
// @bound every byte string of length 0..=12
// @oracle as c11_qpack_decode_integer_n7
#[kani::proof]
#[kani::unwind(14)]
fn c11_qpack_decode_integer_n3() {
    qpack_decode_integer_total::<3, 12>()
}

// @h props=C11 tier=quick t=900 sub=qpack-int
// @fn wtransport-proto/src/qpack.rs Decoder::decode_integer::<8>
// @bound every byte string of length 0..=12
// @oracle as c11_qpack_decode_integer_n7
#[kani::proof]
#[kani::unwind(14)]
fn c11_qpack_decode_integer_n8() {
    qpack_decode_integer_total::<8, 12>()
}

// @h props=C11 tier=thorough t=1800 sub=qpack-int
// @fn wtransport-proto/src/qpack.rs Decoder::decode_integer::<4>
// @bound every byte string of length 0..=13
// @oracle as c11_qpack_decode_integer_n7
#[kani::proof]
#[kani::unwind(15)]
fn c11_qpack_decode_integer_n4() {
    qpack_decode_integer_total::<4, 13>()
}

// @h props=C11 tier=thorough t=1800 sub=qpack-int
// @fn wtransport-proto/src/qpack.rs Decoder::decode_integer::<6>
// @bound every byte string of length 0..=13
// @oracle as c11_qpack_decode_integer_n7
#[kani::proof]
#[kani::unwind(15)]
fn c11_qpack_decode_integer_n6() {
    qpack_decode_integer_total::<6, 13>()
}

// @h props=C11 tier=quick t=300 sub=qpack-line-type
// @fn wtransport-proto/src/qpack.rs Decoder::decode_field_line_type StaticTable::lookup_field
// @bound all 256 first bytes; every usize index
// @oracle RFC 9204 §4.5 bit patterns; `unreachable!()` never reached; lookup_field is Some iff index < 99
#[kani::proof]
fn c11_qpack_line_type_and_table() {
    let b: u8 = kani::any();
    let t = q::decode_field_line_type(b);
    let expect = if b & 0x80 != 0 {
        0
    } else if b & 0xC0 == 0x40 {
        2
    } else if b & 0xE0 == 0x20 {
        4
    } else if b & 0xF0 == 0x10 {
        1
    } else {
        3
    };
    assert!(t == expect, "field line type differs from RFC 9204 §4.5");
    let idx: usize = kani::any();
    let f = q::lookup_field(idx);
    assert!(f.is_some() == (idx < 99), "static table bound");
    kani::cover!(t == 3, "literal with post-base name reference");
    kani::cover!(idx == 98, "last row");
    core::mem::forget(f);
}

/// string decoding with the claimed length fixed to K per instance (a symbolic length makes `to_vec()` +
/// `String::from_utf8` a symbolic-size allocation that exhausts 16 GB); contents and input length stay symbolic
fn qpack_decode_string_k<const N: usize, const K: usize, const L: usize>() {
    let mut buf: [u8; L] = kani::any();
    let flags_hi: u8 = kani::any();
    // first byte: arbitrary upper flag bits, Huffman bit clear, length K (< prefix mask)
    buf[0] = (((flags_hi as u16) << (N + 1)) as u8) | K as u8;
    let len: usize = kani::any();
    kani::assume(len >= 1 && len <= L);
    let data = &buf[..len];
    let mut s: &[u8] = data;
    let got = q::decode_string::<N>(&mut s);
    let consumed = len - s.len();
    if len - 1 < K {
        assert!(matches!(got, Err(DecodingError::UnexpectedFin)), "string longer than the input accepted");
        kani::cover!(len == K, "one byte short");
    } else {
        match got {
            Ok(st) => {
                assert!(utf8_model_ok(&data[1..1 + K]), "ill-formed UTF-8 accepted into a String");
                assert!(st.len() == K && consumed == 1 + K);
                assert!(eq_prefix(st.as_bytes(), &data[1..], K), "string bytes altered");
                kani::cover!(K == 0 || data[1] >= 0x80, "non-ASCII string accepted");
                core::mem::forget(st);
            }
            Err(DecodingError::InvalidString) => {
                assert!(!utf8_model_ok(&data[1..1 + K]), "well-formed UTF-8 string refused as invalid");
                kani::cover!(true, "invalid utf-8 refused");
            }
            Err(_) => assert!(false, "complete string refused with a wrong error"),
        }
    }
}

macro_rules! string_k {
    ($name:ident, $n:literal, $k:literal, $l:literal, $tier:literal) => {
        #[kani::proof]
        #[kani::unwind(8)]
        #[kani::stub(core::str::validations::run_utf8_validation, crate::common::utf8_validation_stub)]
        #[kani::stub(httlib_huffman::decode, crate::common::huffman_decode_cut)]
        fn $name() {
            qpack_decode_string_k::<$n, $k, $l>()
        }
    };
}

// @h props=C11 tier=quick t=900 sub=qpack-string covers=any
// @fn wtransport-proto/src/qpack.rs Decoder::decode_string::<7> Decoder::decode_integer::<7>
// @bound claimed length 0, Huffman bit clear, input length 1..=2, contents symbolic
// @oracle claimed length > remaining => UnexpectedFin (before any copy); Ok => bytes are exactly the input slice and well-formed UTF-8 (Table 3-7 model); InvalidString only for ill-formed content
// @assume Huffman flag clear (httlib-huffman tables outside the claim: httlib_huffman::decode stubbed to assume(false)); run_utf8_validation stubbed by the byte-wise model (checked by c11_utf8_model_equiv_*)
// @outside strings > 3 bytes; Huffman-coded strings
string_k!(c11_qpack_decode_string_n7_k0, 7, 0, 2, "quick");

// @h props=C11 tier=quick t=900 sub=qpack-string
// @fn wtransport-proto/src/qpack.rs Decoder::decode_string::<7>
// @bound claimed length 2, Huffman bit clear, input length 1..=4, contents symbolic
// @oracle as c11_qpack_decode_string_n7_k0
// @assume as c11_qpack_decode_string_n7_k0
string_k!(c11_qpack_decode_string_n7_k2, 7, 2, 4, "quick");

// @h props=C11 tier=quick t=900 sub=qpack-string
// @fn wtransport-proto/src/qpack.rs Decoder::decode_string::<7>
// @bound claimed length 3, Huffman bit clear, input length 1..=5, contents symbolic
// @oracle as c11_qpack_decode_string_n7_k0
// @assume as c11_qpack_decode_string_n7_k0
string_k!(c11_qpack_decode_string_n7_k3, 7, 3, 5, "quick");

// @h props=C11 tier=quick t=900 sub=qpack-string
// @fn wtransport-proto/src/qpack.rs Decoder::decode_string::<3> Decoder::decode_integer::<3>
// @bound claimed length 2 (3-bit prefix), Huffman bit clear, arbitrary upper flag bits, input length 1..=4
// @oracle as c11_qpack_decode_string_n7_k0
// @assume as c11_qpack_decode_string_n7_k0
string_k!(c11_qpack_decode_string_n3_k2, 3, 2, 4, "quick");

// @h props=C11 tier=thorough t=1800 sub=qpack-string
// @fn wtransport-proto/src/qpack.rs Decoder::decode_string::<7>
// @bound claimed length 4, Huffman bit clear, input length 1..=6
// @oracle as c11_qpack_decode_string_n7_k0
// @assume as c11_qpack_decode_string_n7_k0
string_k!(c11_qpack_decode_string_n7_k4, 7, 4, 6, "thorough");

// @h props=C11 tier=quick t=900 sub=qpack-string
// @fn wtransport-proto/src/qpack.rs Decoder::decode_string::<7> Decoder::decode_integer::<7>
// @bound first octet 0x7f (multi-octet length), 0..=6 further symbolic octets: every claimed length 127 .. 2^35
// @oracle a claimed length far beyond the input is an error and nothing is returned
// @assume Huffman flag clear
#[kani::proof]
#[kani::unwind(9)]
#[kani::stub(core::str::validations::run_utf8_validation, crate::common::utf8_validation_stub)]
#[kani::stub(httlib_huffman::decode, crate::common::huffman_decode_cut)]
fn c11_qpack_decode_string_huge_claim() {
    let mut buf: [u8; 7] = kani::any();
    buf[0] = 0x7f;
    let len: usize = kani::any();
    kani::assume(len >= 1 && len <= 7);
    let mut s: &[u8] = &buf[..len];
    let got = q::decode_string::<7>(&mut s);
    assert!(got.is_err(), "string with a claimed length >= 127 decoded from <= 6 bytes");
    kani::cover!(matches!(got, Err(DecodingError::UnexpectedFin)) && len == 7 && buf[6] < 0x80, "complete huge length, missing data");
}

// @h props=C11,C04 tier=quick t=1200 sub=capsule
// @fn wtransport-proto/src/capsule/mod.rs Capsule::with_frame CapsuleKind::parse; wtransport-proto/src/capsule/close_wt_session.rs CloseWebTransportSession::{with_capsule,error_code,reason}
// @bound every DATA-frame payload of length 0..=10 (capsule type 0x2843 = 2 bytes, 1-byte length, 4-byte code, reason <= 3 bytes)
// @oracle Some <=> type == 0x2843 and the length field fits the remaining bytes; close capsule: Ok <=> 4 <= L <= 1028 and reason is UTF-8; then code == big-endian of the 4 bytes and reason bytes identical; never a panic
// @outside reasons > 3 bytes; the 1024/1025 boundary (thorough instance in the mirror crate)
#[kani::proof]
#[kani::unwind(12)]
#[kani::stub(core::str::validations::run_utf8_validation, crate::common::utf8_validation_stub)]
fn c11_capsule_close() {
    let buf: [u8; 10] = kani::any();
    let len: usize = kani::any();
    kani::assume(len <= 10);
    let f = Frame::new_data(Cow::Borrowed(&buf[..len]));
    let data = &buf[..len];
    let got = Capsule::with_frame(&f);
    let expect = (|| {
        let (t, n1) = ref_varint_get(data)?;
        if t != 0x2843 {
            return None;
        }
        let (l, n2) = ref_varint_get(&data[n1..])?;
        if (len - n1 - n2) as u64 >= l {
            Some((n1 + n2, l as usize))
        } else {
            None
        }
    })();
    match (got, expect) {
        (None, None) => {
            kani::cover!(len >= 3 && buf[0] == 0x68 && buf[1] == 0x43, "close capsule with a length beyond the frame");
        }
        (Some(c), Some((off, l))) => {
            assert!(c.payload().len() == l && eq_prefix(c.payload(), &data[off..], l), "capsule payload is not the input slice");
            let r = CloseWebTransportSession::with_capsule(&c);
            if l < 4 {
                assert!(r.is_err(), "close capsule shorter than its code accepted");
                kani::cover!(l == 3, "3-byte close capsule");
            } else {
                match r {
                    Ok(cl) => {
                        assert!(utf8_model_ok(&data[off + 4..off + l]), "ill-formed UTF-8 reason accepted");
                        let code = ((data[off] as u32) << 24) | ((data[off + 1] as u32) << 16) | ((data[off + 2] as u32) << 8) | data[off + 3] as u32;
                        assert!(cl.error_code().into_inner() == code as u64, "close code altered");
                        assert!(cl.reason().len() == l - 4 && eq_prefix(cl.reason().as_bytes(), &data[off + 4..], l - 4), "reason altered");
                        kani::cover!(l == 7, "3-byte reason");
                        kani::cover!(l == 4, "empty reason");
                        core::mem::forget(cl);
                    }
                    Err(_) => {
                        assert!(!utf8_model_ok(&data[off + 4..off + l]), "well-formed close capsule refused");
                        kani::cover!(true, "invalid utf-8 reason refused");
                    }
                }
            }
        }
        _ => assert!(false, "Capsule::with_frame disagrees with the reference parser"),
    }
}

// @h props=C11 tier=quick t=900 expect=fail sub=twin
// @fn wtransport-proto/src/frame.rs Frame::read
// @bound twin: claims Frame::read never returns a frame; must be refuted
#[kani::proof]
#[kani::unwind(8)]
fn c11_twin_must_fail() {
    let buf: [u8; 4] = kani::any();
    let mut s: &[u8] = &buf[..];
    assert!(!matches!(Frame::read(&mut s), Ok(Some(_))), "twin: wrong oracle");
}

fn utf8_equiv<const L: usize>() {
    let b: [u8; L] = kani::any();
    let real_r = core::str::from_utf8(&b);
    let real = real_r.is_ok();
    assert!(real == utf8_model_ok(&b), "UTF-8 model differs from core::str::from_utf8");
    if let (Err(r), Err(m)) = (real_r, crate::common::utf8_validation_stub(&b)) {
        assert!(r.valid_up_to() == m.valid_up_to() && r.error_len() == m.error_len(), "UTF-8 model reports a different error position / kind than core");
        kani::cover!(r.error_len().is_none(), "input ends inside a sequence");
    }
    kani::cover!(real && b[0] >= 0x80, "multi-byte sequence accepted");
    kani::cover!(!real, "rejected");
}

// @h props=C11,C04 tier=quick t=900 sub=utf8-model
// @fn (trusted-base check) core::str::from_utf8 vs the byte-wise model used as its stub
// @bound every byte string of length exactly 2
// @oracle the real validator and the Table 3-7 model accept the same strings and report the same Utf8Error (valid_up_to, error_len) for the others
#[kani::proof]
#[kani::unwind(8)]
fn c11_utf8_model_equiv_2() {
    utf8_equiv::<2>()
}

// @h props=C11,C04 tier=quick t=900 sub=utf8-model
// @fn (trusted-base check) core::str::from_utf8 vs the byte-wise model
// @bound every byte string of length exactly 3
// @oracle as c11_utf8_model_equiv_2
#[kani::proof]
#[kani::unwind(8)]
fn c11_utf8_model_equiv_3() {
    utf8_equiv::<3>()
}

// @h props=C11,C04 tier=thorough t=1800 sub=utf8-model
// @fn (trusted-base check) core::str::from_utf8 vs the byte-wise model
// @bound every byte string of length exactly 4
// @oracle as c11_utf8_model_equiv_2
#[kani::proof]
#[kani::unwind(8)]
fn c11_utf8_model_equiv_4() {
    utf8_equiv::<4>()
}

/// close capsule with a reason of exactly RL bytes ('a' x RL, last byte symbolic ASCII), T = 8 + RL total bytes
fn capsule_reason_boundary<const RL: usize, const T: usize>(expect_ok: bool) {
    let mut buf = [b'a'; T];
    let code: u32 = kani::any();
    let last: u8 = kani::any();
    kani::assume(last < 0x80);
    buf[0] = 0x68;
    buf[1] = 0x43;
    let l = (4 + RL) as u16; // 2-byte varint (64..16383)
    buf[2] = 0x40 | (l >> 8) as u8;
    buf[3] = l as u8;
    buf[4] = (code >> 24) as u8;
    buf[5] = (code >> 16) as u8;
    buf[6] = (code >> 8) as u8;
    buf[7] = code as u8;
    buf[T - 1] = last;
    let f = Frame::new_data(Cow::Borrowed(&buf[..]));
    let c = Capsule::with_frame(&f).expect("complete close capsule not recognised");
    assert!(c.payload().len() == 4 + RL);
    let r = CloseWebTransportSession::with_capsule(&c);
    match r {
        Ok(cl) => {
            assert!(expect_ok, "close capsule with a reason longer than 1024 bytes accepted");
            assert!(cl.error_code().into_inner() == code as u64, "close code altered");
            assert!(cl.reason().len() == RL && cl.reason().as_bytes()[RL - 1] == last && cl.reason().as_bytes()[0] == b'a', "reason altered");
            kani::cover!(true, "accepted");
            core::mem::forget(cl);
        }
        Err(e) => {
            assert!(!expect_ok, "close capsule with a reason of at most 1024 bytes (the documented maximum) refused");
            assert!(e.to_code().into_inner() == 0x33);
            kani::cover!(true, "refused");
        }
    }
}

// @h props=C04,C11 tier=quick t=2400 mem=20 sub=capsule-reason-boundary covers=any
// @fn wtransport-proto/src/capsule/close_wt_session.rs CloseWebTransportSession::with_capsule; wtransport-proto/src/capsule/mod.rs Capsule::with_frame
// @bound reason of exactly 1024 bytes (the maximum of the WebTransport draft): 1023 x 'a' + one symbolic ASCII byte; every 32-bit code
// @oracle accepted with exactly that code and reason
// @assume the reason is ASCII by construction; run_utf8_validation is stubbed to Ok for it (ASCII is well-formed UTF-8)
#[kani::proof]
#[kani::unwind(8)]
#[kani::stub(core::str::validations::run_utf8_validation, crate::common::utf8_ascii_by_construction_stub)]
fn c11_capsule_reason_1024() {
    capsule_reason_boundary::<1024, 1032>(true)
}

// @h props=C04,C11 tier=quick t=2400 mem=20 sub=capsule-reason-boundary covers=any
// @fn wtransport-proto/src/capsule/close_wt_session.rs CloseWebTransportSession::with_capsule
// @bound reason of exactly 1025 bytes (one more than the maximum)
// @oracle refused with H3_DATAGRAM_ERROR (malformed capsule => protocol failure, never an application close)
// @assume as c11_capsule_reason_1024
#[kani::proof]
#[kani::unwind(8)]
#[kani::stub(core::str::validations::run_utf8_validation, crate::common::utf8_ascii_by_construction_stub)]
fn c11_capsule_reason_1025() {
    capsule_reason_boundary::<1025, 1033>(false)
}
