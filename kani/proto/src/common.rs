//! helpers shared by the harnesses: reference (oracle) codecs written from the RFC text, model readers/writers.
use wtransport_proto::varint::VarInt;

pub const VMAX: u64 = (1u64 << 62) - 1;

pub fn any_varint() -> VarInt {
    let v: u64 = kani::any();
    kani::assume(v <= VMAX);
    VarInt::try_from_u64(v).unwrap()
}

/// RFC 9000 §16 reference: encoded length of v
pub fn ref_varint_len(v: u64) -> usize {
    if v < (1 << 6) {
        1
    } else if v < (1 << 14) {
        2
    } else if v < (1 << 30) {
        4
    } else {
        8
    }
}

/// RFC 9000 §16 reference encoder (shortest form) into `out`, returns length
pub fn ref_varint_put(v: u64, out: &mut [u8]) -> usize {
    let n = ref_varint_len(v);
    let tag: u64 = match n {
        1 => 0,
        2 => 1,
        4 => 2,
        _ => 3,
    };
    let word = v | (tag << (8 * n as u64 - 2));
    let mut i = 0;
    while i < n {
        out[i] = (word >> (8 * (n - 1 - i))) as u8;
        i += 1;
    }
    n
}

/// RFC 9000 §16 reference decoder: (value, length) or None when the buffer is too short
pub fn ref_varint_get(b: &[u8]) -> Option<(u64, usize)> {
    if b.is_empty() {
        return None;
    }
    let n = 1usize << (b[0] >> 6);
    if b.len() < n {
        return None;
    }
    let mut v: u64 = (b[0] & 0x3f) as u64;
    let mut i = 1;
    while i < n {
        v = (v << 8) | b[i] as u64;
        i += 1;
    }
    Some((v, n))
}

use std::future::Future;
use std::pin::Pin;
use std::task::{Context, Poll, Waker};
use wtransport_proto::bytes as wbytes;
use wtransport_proto::ids::{QStreamId, SessionId, StreamId};

/// an arbitrary valid session id (client-initiated bidirectional stream id = 4*q, q < 2^60)
pub fn any_session_id() -> SessionId {
    let q: u64 = kani::any();
    kani::assume(q <= (1u64 << 60) - 1);
    let v = q << 2;
    SessionId::try_from_session_stream(StreamId::new(VarInt::try_from_u64(v).unwrap())).unwrap()
}

/// stub for `<bytes::IoReadError as From<std::io::Error>>::from` (io::Error drop glue/repr blows CBMC up;
/// the real impl is checked on concrete ErrorKinds in c15_io_error_mapping)
pub fn io_read_err_stub(e: std::io::Error) -> wbytes::IoReadError {
    core::mem::forget(e);
    wbytes::IoReadError::NotConnected
}
pub fn io_write_err_stub(e: std::io::Error) -> wbytes::IoWriteError {
    core::mem::forget(e);
    wbytes::IoWriteError::NotConnected
}

pub fn poll_once<F: Future>(fut: F) -> Option<F::Output> {
    let mut fut = std::pin::pin!(fut);
    let mut cx = Context::from_waker(Waker::noop());
    match fut.as_mut().poll(&mut cx) {
        Poll::Ready(v) => Some(v),
        Poll::Pending => None,
    }
}

/// byte-wise model source: delivers `data[..len]` one byte per poll_read, then EOF; never Pending.
/// (chunking / Pending independence is decided per state machine by the L1 inductive harnesses)
pub struct ByteReader<const N: usize> {
    pub data: [u8; N],
    pub len: usize,
    pub off: usize,
}
impl<const N: usize> wbytes::AsyncRead for ByteReader<N> {
    fn poll_read(self: Pin<&mut Self>, _cx: &mut Context<'_>, buf: &mut [u8]) -> Poll<std::io::Result<usize>> {
        let this = self.get_mut();
        if this.off >= this.len || buf.is_empty() {
            return Poll::Ready(Ok(0));
        }
        buf[0] = this.data[this.off];
        this.off += 1;
        Poll::Ready(Ok(1))
    }
}

/// byte-wise model sink: accepts one byte per poll_write into a fixed array; never Pending
pub struct ByteWriter<const N: usize> {
    pub data: [u8; N],
    pub off: usize,
}
impl<const N: usize> ByteWriter<N> {
    pub fn new() -> Self {
        Self { data: [0; N], off: 0 }
    }
}
impl<const N: usize> wbytes::AsyncWrite for ByteWriter<N> {
    fn poll_write(self: Pin<&mut Self>, _cx: &mut Context<'_>, buf: &[u8]) -> Poll<std::io::Result<usize>> {
        let this = self.get_mut();
        if buf.is_empty() {
            return Poll::Ready(Ok(0));
        }
        assert!(this.off < N, "model sink capacity exceeded (harness bound)");
        this.data[this.off] = buf[0];
        this.off += 1;
        Poll::Ready(Ok(1))
    }
}

/// stuttering model sink: each poll_write either suspends (at most `pendings` times in total, harness's choice) or
/// accepts exactly one of the offered bytes - what a flow-controlled QUIC stream does when its credit runs out in the
/// middle of a write and is extended later. A multi-byte write is therefore always partial, and a suspension can
/// follow a partial write inside one poll of the writing future.
pub struct StutterWriter<const N: usize> {
    pub data: [u8; N],
    pub off: usize,
    pub pendings: u8,
    /// number of suspensions that came directly after an accepted byte
    pub cut_then_pending: u8,
    last_was_write: bool,
}
impl<const N: usize> StutterWriter<N> {
    pub fn new(pendings: u8) -> Self {
        Self { data: [0; N], off: 0, pendings, cut_then_pending: 0, last_was_write: false }
    }
}
impl<const N: usize> wbytes::AsyncWrite for StutterWriter<N> {
    fn poll_write(self: Pin<&mut Self>, _cx: &mut Context<'_>, buf: &[u8]) -> Poll<std::io::Result<usize>> {
        let this = self.get_mut();
        if buf.is_empty() {
            return Poll::Ready(Ok(0));
        }
        if this.pendings > 0 && kani::any() {
            this.pendings -= 1;
            if this.last_was_write {
                this.cut_then_pending += 1;
            }
            this.last_was_write = false;
            return Poll::Pending;
        }
        assert!(this.off < N, "model sink capacity exceeded (harness bound)");
        this.data[this.off] = buf[0];
        this.off += 1;
        this.last_was_write = true;
        Poll::Ready(Ok(1))
    }
}

/// true iff a[..n] == b[..n]
pub fn eq_prefix(a: &[u8], b: &[u8], n: usize) -> bool {
    let mut i = 0;
    while i < n {
        if a[i] != b[i] {
            return false;
        }
        i += 1;
    }
    true
}

/// GREASE ids 0x1f*n + 0x21 with n < 2^16 (1-, 2- and 4-byte varints), or the largest 8-byte one
pub fn any_grease_id() -> VarInt {
    let big: bool = kani::any();
    if big {
        // largest n with 0x1f*n+0x21 <= 2^62-1
        const NMAX: u64 = (VMAX - 0x21) / 0x1f;
        VarInt::try_from_u64(0x1f * NMAX + 0x21).unwrap()
    } else {
        let n: u16 = kani::any();
        VarInt::try_from_u64(0x1f * (n as u64) + 0x21).unwrap()
    }
}

/// Model of the private `core::str::validations::run_utf8_validation` (word-at-a-time validator that CBMC
/// unrolls very expensively). Byte-wise validator of the same language, written from Unicode 15 Table 3-7
/// (well-formed UTF-8 byte sequences). Used via `#[kani::stub]` where strings are built; compared with the
/// real validator on every input <= 4 bytes in `c11_utf8_model_equiv_*`.
pub fn utf8_model_ok(v: &[u8]) -> bool {
    utf8_model(v).is_ok()
}

/// the same validator with core's error report: Err((valid_up_to, error_len)) where error_len is None when the input
/// ends inside a so-far well-formed sequence and Some(k) when byte k of the sequence starting at valid_up_to is wrong
/// (core::str::Utf8Error semantics; the code under test may branch on either, e.g. lossy / truncating decoders)
pub fn utf8_model(v: &[u8]) -> Result<(), (usize, Option<u8>)> {
    let n = v.len();
    let mut i = 0;
    while i < n {
        let b = v[i];
        if b < 0x80 {
            i += 1;
            continue;
        }
        let (need, lo, hi): (usize, u8, u8) = if b >= 0xC2 && b <= 0xDF {
            (1, 0x80, 0xBF)
        } else if b == 0xE0 {
            (2, 0xA0, 0xBF)
        } else if (b >= 0xE1 && b <= 0xEC) || b == 0xEE || b == 0xEF {
            (2, 0x80, 0xBF)
        } else if b == 0xED {
            (2, 0x80, 0x9F)
        } else if b == 0xF0 {
            (3, 0x90, 0xBF)
        } else if b >= 0xF1 && b <= 0xF3 {
            (3, 0x80, 0xBF)
        } else if b == 0xF4 {
            (3, 0x80, 0x8F)
        } else {
            return Err((i, Some(1)));
        };
        if i + 1 >= n {
            return Err((i, None));
        }
        if v[i + 1] < lo || v[i + 1] > hi {
            return Err((i, Some(1)));
        }
        let mut k = 2;
        while k <= need {
            if i + k >= n {
                return Err((i, None));
            }
            if v[i + k] < 0x80 || v[i + k] > 0xBF {
                return Err((i, Some(k as u8)));
            }
            k += 1;
        }
        i += need + 1;
    }
    Ok(())
}

pub fn utf8_validation_stub(v: &[u8]) -> Result<(), core::str::Utf8Error> {
    match utf8_model(v) {
        Ok(()) => Ok(()),
        // Utf8Error { valid_up_to: usize, error_len: Option<u8> }: built by transmute (no public constructor); the
        // accessors are compared with the real validator's in c11_utf8_model_equiv_*
        Err(e) => Err(unsafe { core::mem::transmute::<(usize, Option<u8>), core::str::Utf8Error>(e) }),
    }
}

/// stub for `httlib_huffman::decode` in harnesses that assume the Huffman flag clear: the path is cut
/// (the decode tables of httlib-huffman are a wall for CBMC and outside every claim)
pub fn huffman_decode_cut(_src: &[u8], _dst: &mut Vec<u8>, _speed: httlib_huffman::DecoderSpeed) -> Result<(), httlib_huffman::DecoderError> {
    kani::assume(false);
    Ok(())
}
/// model for `httlib_huffman::encode`: the coder either fails (non-ASCII) or yields a code that is NOT shorter
/// than the input, so the real `encode_string` takes its literal branch (the Huffman branch is outside the claim)
pub fn huffman_encode_not_shorter(src: &[u8], dst: &mut Vec<u8>) -> Result<(), httlib_huffman::EncoderError> {
    let mut i = 0;
    while i < src.len() {
        dst.push(src[i]);
        i += 1;
    }
    Ok(())
}

/// stub for `run_utf8_validation` in harnesses whose string bytes are ASCII BY CONSTRUCTION (every byte is a literal
/// < 0x80 or assumed < 0x80 by the harness): ASCII is always well-formed UTF-8, so the validator is skipped
/// (walking 1024 partly symbolic bytes through any validator costs CBMC more than 15 minutes)
pub fn utf8_ascii_by_construction_stub(_v: &[u8]) -> Result<(), core::str::Utf8Error> {
    Ok(())
}
