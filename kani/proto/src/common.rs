//! helpers shared by the harnesses: reference (oracle) codecs written from the RFC text, model readers/writers.
use wtransport_proto::varint::VarInt;

pub const VMAX: u64 = (1u64 << 62) - 1;

pub fn any_varint() -> VarInt {
    let v: u64 = kani::any();
    kani::assume(v <= VMAX);
    VarInt::try_from_u64(v).unwrap()
}

/// RFC 9000 §16 reference: encoded length of v
pub fn ref_varint_len(v: u64) -> usize {
    if v < (1 << 6) {
        1
    } else if v < (1 << 14) {
        2
    } else if v < (1 << 30) {
        4
    } else {
        8
    }
}

/// RFC 9000 §16 reference encoder (shortest form) into `out`, returns length
pub fn ref_varint_put(v: u64, out: &mut [u8]) -> usize {
    let n = ref_varint_len(v);
    let tag: u64 = match n {
        1 => 0,
        2 => 1,
        4 => 2,
        _ => 3,
    };
    let word = v | (tag << (8 * n as u64 - 2));
    let mut i = 0;
    while i < n {
        out[i] = (word >> (8 * (n - 1 - i))) as u8;
        i += 1;
    }
    n
}

/// RFC 9000 §16 reference decoder: (value, length) or None when the buffer is too short
pub fn ref_varint_get(b: &[u8]) -> Option<(u64, usize)> {
    if b.is_empty() {
        return None;
    }
    let n = 1usize << (b[0] >> 6);
    if b.len() < n {
        return None;
    }
    let mut v: u64 = (b[0] & 0x3f) as u64;
    let mut i = 1;
    while i < n {
        v = (v << 8) | b[i] as u64;
        i += 1;
    }
    Some((v, n))
}
