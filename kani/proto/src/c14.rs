//! C14 — encoding and decoding are exact inverses with exact sizes
use crate::common::*;
use std::borrow::Cow;
use wtransport_proto::bytes::{BufferReader, BufferWriter, BytesReader, BytesWriter};
use wtransport_proto::datagram::Datagram;
use wtransport_proto::frame::{Frame, FrameKind};
use wtransport_proto::ids::{QStreamId, SessionId, StreamId};
use wtransport_proto::stream_header::{StreamHeader, StreamKind};
use wtransport_proto::varint::VarInt;
use wtransport_proto::verif_hooks::qpack as q;

// @h props=C14,C16 tier=quick t=300 sub=varint
// @fn wtransport-proto/src/varint.rs VarInt::{size,parse_size,try_from_u64}; wtransport-proto/src/bytes.rs BufferWriter::put_varint BufferReader::get_varint <&[u8] as BytesReader>::get_varint
// @bound every v < 2^62 (whole type)
// @oracle RFC 9000 §16 reference encoder written by shift/mask: bytes identical, shortest form, size() == bytes written, both readers return v and consume exactly the encoding
#[kani::proof]
#[kani::unwind(10)]
fn c14_varint_roundtrip() {
    let v: u64 = kani::any();
    kani::assume(v <= VMAX);
    let vi = VarInt::try_from_u64(v).unwrap();
    let mut buf = [0u8; 10];
    let mut w = BufferWriter::new(&mut buf);
    w.put_varint(vi).unwrap();
    let n = w.offset();
    let mut refb = [0u8; 10];
    let rn = ref_varint_put(v, &mut refb);
    assert!(n == rn, "varint length is not the shortest form");
    assert!(vi.size() == n, "size() differs from bytes written");
    assert!(eq_prefix(&buf, &refb, n), "varint bytes differ from RFC 9000 reference");
    assert!(VarInt::parse_size(buf[0]) == n);
    // trailing garbage must not be touched / read
    let g: u8 = kani::any();
    buf[n] = g;
    let mut r = BufferReader::new(&buf[..n + 1]);
    let back = r.get_varint().unwrap();
    assert!(back.into_inner() == v && r.offset() == n);
    let mut s: &[u8] = &buf[..n + 1];
    let back2 = s.get_varint().unwrap();
    assert!(back2.into_inner() == v && s.len() == 1 && s[0] == g);
    kani::cover!(n == 1, "1-byte");
    kani::cover!(n == 2, "2-byte");
    kani::cover!(n == 4, "4-byte");
    kani::cover!(n == 8, "8-byte");
}

// @h props=C14 tier=quick t=300 sub=varint-vec
// @fn wtransport-proto/src/bytes.rs <Vec<u8> as BytesWriter>::put_varint
// @bound every v < 2^62; Vec with one pre-existing byte
// @oracle appended bytes == RFC 9000 reference encoding, previous content untouched
#[kani::proof]
#[kani::unwind(10)]
fn c14_varint_vec_writer() {
    let v: u64 = kani::any();
    kani::assume(v <= VMAX);
    let vi = VarInt::try_from_u64(v).unwrap();
    let mut out: Vec<u8> = Vec::with_capacity(16);
    out.push(0xAB);
    out.put_varint(vi).unwrap();
    let mut refb = [0u8; 8];
    let rn = ref_varint_put(v, &mut refb);
    assert!(out.len() == 1 + rn);
    assert!(out[0] == 0xAB);
    assert!(eq_prefix(&out[1..], &refb, rn));
    kani::cover!(rn == 8, "8-byte");
    core::mem::forget(out);
}

fn any_plain_frame<'a>(payload: &'a [u8]) -> (Frame<'a>, u64) {
    let sel: u8 = kani::any();
    kani::assume(sel < 4);
    match sel {
        0 => (Frame::new_data(Cow::Borrowed(payload)), 0x00),
        1 => (Frame::new_headers(Cow::Borrowed(payload)), 0x01),
        2 => (Frame::new_settings(Cow::Borrowed(payload)), 0x04),
        _ => {
            let id = any_grease_id();
            (Frame::new_exercise(id, Cow::Borrowed(payload)), id.into_inner())
        }
    }
}

fn kind_matches(k: FrameKind, type_id: u64) -> bool {
    match k {
        FrameKind::Data => type_id == 0,
        FrameKind::Headers => type_id == 1,
        FrameKind::Settings => type_id == 4,
        FrameKind::WebTransport => type_id == 0x41,
        FrameKind::Exercise(id) => id.into_inner() == type_id && type_id >= 0x21 && (type_id - 0x21) % 0x1f == 0,
    }
}

fn frame_roundtrip<const P: usize>() {
    let pl: [u8; P] = kani::any();
    let len: usize = kani::any();
    kani::assume(len <= P);
    let (f, type_id) = any_plain_frame(&pl[..len]);
    // reference size/bytes: varint(type) varint(len) payload
    let mut refb = [0u8; 32];
    let mut rn = ref_varint_put(type_id, &mut refb);
    rn += ref_varint_put(len as u64, &mut refb[rn..]);
    let mut i = 0;
    while i < len {
        refb[rn + i] = pl[i];
        i += 1;
    }
    rn += len;
    assert!(f.write_size() == rn, "write_size differs from reference size");

    // write into an exact-size-or-larger buffer
    let mut buf = [0u8; 32];
    let mut w = BufferWriter::new(&mut buf);
    f.write(&mut w).unwrap();
    let n = w.offset();
    assert!(n == rn, "bytes written differ from write_size");
    assert!(eq_prefix(&buf, &refb, n), "frame bytes differ from reference");

    // decode: equal value, consumes exactly the encoding (one trailing garbage byte stays)
    buf[n] = kani::any();
    let mut s: &[u8] = &buf[..n + 1];
    let g = Frame::read(&mut s);
    match g {
        Ok(Some(g)) => {
            assert!(kind_matches(g.kind(), type_id), "kind changed in round trip");
            assert!(g.payload().len() == len && eq_prefix(g.payload(), &pl, len), "payload changed in round trip");
            assert!(g.session_id().is_none());
            assert!(s.len() == 1, "decoder did not consume exactly the encoding");
        }
        _ => assert!(false, "decode(encode(frame)) failed"),
    }

    // write_to_buffer with arbitrary capacity: too small => Err, offset and bytes untouched
    let cap: usize = kani::any();
    kani::assume(cap <= 32);
    let mut dst = [0x5Au8; 32];
    let mut w2 = BufferWriter::new(&mut dst[..cap]);
    let r = f.write_to_buffer(&mut w2);
    let off2 = w2.offset();
    if cap < rn {
        assert!(r.is_err(), "write_to_buffer accepted a too-small destination");
        assert!(off2 == 0, "write_to_buffer advanced a too-small destination");
        let mut i = 0;
        while i < 32 {
            assert!(dst[i] == 0x5A, "write_to_buffer touched a too-small destination");
            i += 1;
        }
        kani::cover!(cap + 1 == rn, "one byte short");
    } else {
        assert!(r.is_ok() && off2 == rn);
        assert!(eq_prefix(&dst, &refb, rn));
        kani::cover!(cap == rn, "exact fit");
    }
    kani::cover!(len == P, "max payload");
    kani::cover!(len == 0, "empty payload");
    kani::cover!(type_id > 0x3fff_ffff, "8-byte grease type");
}

// @h props=C14,C16 tier=quick t=900 sub=frame
// @fn wtransport-proto/src/frame.rs Frame::{new_data,new_headers,new_settings,new_exercise,write,write_size,write_to_buffer,read} FrameKind::{id,parse}
// @bound kinds DATA/HEADERS/SETTINGS/GREASE(0x1f*n+0x21, n<2^16, and the largest 8-byte id); payload of symbolic length <= 3 bytes, symbolic content; destination capacity 0..32
// @oracle reference encoding varint(type)||varint(len)||payload built from the RFC 9000/9114 text; decode∘encode = id; consumed == written == write_size; too-small destination untouched
// @outside payloads > 3 bytes (thorough: 8; boundary lengths 63/64 in c14_frame_len_boundary)
#[kani::proof]
#[kani::unwind(34)]
fn c14_frame_roundtrip_p3() {
    frame_roundtrip::<3>()
}

// @h props=C14 tier=thorough t=3000 sub=frame
// @fn wtransport-proto/src/frame.rs Frame::{write,write_size,write_to_buffer,read}
// @bound as c14_frame_roundtrip_p3 with payload <= 8 bytes
// @oracle as c14_frame_roundtrip_p3
#[kani::proof]
#[kani::unwind(34)]
fn c14_frame_roundtrip_p8() {
    frame_roundtrip::<8>()
}

// @h props=C14,C16,C01 tier=quick t=600 sub=frame-wt
// @fn wtransport-proto/src/frame.rs Frame::{new_webtransport,write,write_size,write_to_buffer,read,session_id}
// @bound every valid session id (4q, q < 2^60); capacity 0..16
// @oracle bytes == varint(0x41)||varint(sid) (reference encoder); decode gives the same id and consumes exactly those bytes
#[kani::proof]
#[kani::unwind(18)]
fn c14_frame_wt_roundtrip() {
    let sid = any_session_id();
    let v = sid.into_u64();
    let f = Frame::new_webtransport(sid);
    let mut refb = [0u8; 16];
    let mut rn = ref_varint_put(0x41, &mut refb);
    rn += ref_varint_put(v, &mut refb[rn..]);
    assert!(rn >= 3 && refb[0] == 0x40 && refb[1] == 0x41);
    assert!(f.write_size() == rn);
    let mut buf = [0u8; 16];
    let mut w = BufferWriter::new(&mut buf);
    f.write(&mut w).unwrap();
    let n = w.offset();
    assert!(n == rn && eq_prefix(&buf, &refb, n), "WT signal bytes differ from reference");
    buf[n] = kani::any();
    let mut s: &[u8] = &buf[..n + 1];
    match Frame::read(&mut s) {
        Ok(Some(g)) => {
            assert!(matches!(g.kind(), FrameKind::WebTransport));
            assert!(g.session_id().unwrap().into_u64() == v);
            assert!(g.payload().is_empty());
            assert!(s.len() == 1);
        }
        _ => assert!(false, "decode(encode(WT frame)) failed"),
    }
    let cap: usize = kani::any();
    kani::assume(cap <= 16);
    let mut dst = [0x5Au8; 16];
    let mut w2 = BufferWriter::new(&mut dst[..cap]);
    let r = f.write_to_buffer(&mut w2);
    if cap < rn {
        assert!(r.is_err() && w2.offset() == 0);
        let mut i = 0;
        while i < 16 {
            assert!(dst[i] == 0x5A);
            i += 1;
        }
        kani::cover!(cap + 1 == rn, "one short");
    } else {
        assert!(r.is_ok() && w2.offset() == rn);
    }
    kani::cover!(rn == 10, "8-byte session id");
    kani::cover!(rn == 3, "1-byte session id");
}

// @h props=C14,C16,C01 tier=quick t=600 sub=stream-header
// @fn wtransport-proto/src/stream_header.rs StreamHeader::{new_control,new_webtransport,write,write_size,write_to_buffer,read,MAX_SIZE} StreamKind::{id,parse}
// @bound Control and WebTransport with every valid session id; capacity 0..16
// @oracle bytes == 0x00 | varint(0x54)||varint(sid); decode∘encode = id; size <= MAX_SIZE; too-small destination untouched
#[kani::proof]
#[kani::unwind(18)]
fn c14_stream_header_roundtrip() {
    let is_wt: bool = kani::any();
    let sid = any_session_id();
    let v = sid.into_u64();
    let h = if is_wt { StreamHeader::new_webtransport(sid) } else { StreamHeader::new_control() };
    let mut refb = [0u8; 16];
    let mut rn = ref_varint_put(if is_wt { 0x54 } else { 0x00 }, &mut refb);
    if is_wt {
        rn += ref_varint_put(v, &mut refb[rn..]);
    }
    assert!(h.write_size() == rn && rn <= StreamHeader::MAX_SIZE);
    let mut buf = [0u8; 17];
    let mut w = BufferWriter::new(&mut buf);
    h.write(&mut w).unwrap();
    let n = w.offset();
    assert!(n == rn && eq_prefix(&buf, &refb, n), "stream header bytes differ from reference");
    buf[n] = kani::any();
    let mut s: &[u8] = &buf[..n + 1];
    match StreamHeader::read(&mut s) {
        Ok(Some(g)) => {
            if is_wt {
                assert!(matches!(g.kind(), StreamKind::WebTransport));
                assert!(g.session_id().unwrap().into_u64() == v);
            } else {
                assert!(matches!(g.kind(), StreamKind::Control));
                assert!(g.session_id().is_none());
            }
            assert!(s.len() == 1, "decoder did not consume exactly the header");
        }
        _ => assert!(false, "decode(encode(header)) failed"),
    }
    let cap: usize = kani::any();
    kani::assume(cap <= 16);
    let mut dst = [0x5Au8; 16];
    let mut w2 = BufferWriter::new(&mut dst[..cap]);
    let r = h.write_to_buffer(&mut w2);
    if cap < rn {
        assert!(r.is_err() && w2.offset() == 0);
        let mut i = 0;
        while i < 16 {
            assert!(dst[i] == 0x5A);
            i += 1;
        }
        kani::cover!(is_wt && cap + 1 == rn, "one short");
    } else {
        assert!(r.is_ok() && w2.offset() == rn);
    }
    kani::cover!(is_wt && rn == 10, "8-byte session id");
    kani::cover!(!is_wt, "control");
}

fn datagram_roundtrip<const P: usize>() {
    let sid = any_session_id();
    let qid = QStreamId::from_session_id(sid);
    let qv = sid.into_u64() >> 2;
    let pl: [u8; P] = kani::any();
    let len: usize = kani::any();
    kani::assume(len <= P);
    let d = Datagram::new(qid, &pl[..len]);
    let hs = ref_varint_len(qv);
    assert!(Datagram::header_size(qid) == hs);
    assert!(d.write_size() == hs + len, "write_size != header + payload");
    let cap: usize = kani::any();
    kani::assume(cap <= 24);
    let mut buf = [0x5Au8; 24];
    let r = d.write(&mut buf[..cap]);
    if cap < hs + len {
        assert!(r.is_err(), "datagram written into a too-small buffer");
        let mut i = 0;
        while i < 24 {
            assert!(buf[i] == 0x5A, "too-small buffer touched");
            i += 1;
        }
        kani::cover!(cap + 1 == hs + len, "one short");
    } else {
        let n = r.unwrap();
        assert!(n == hs + len, "write returned a size different from write_size");
        let mut refb = [0u8; 24];
        let rn = ref_varint_put(qv, &mut refb);
        assert!(rn == hs && eq_prefix(&buf, &refb, rn), "quarter stream id prefix differs from reference");
        assert!(eq_prefix(&buf[hs..], &pl, len), "payload bytes altered on the wire");
        let back = Datagram::read(&buf[..n]);
        match back {
            Ok(b) => {
                assert!(b.qstream_id().into_u64() == qv, "qstream id changed in round trip");
                assert!(b.payload().len() == len && eq_prefix(b.payload(), &pl, len), "payload changed in round trip");
            }
            Err(_) => assert!(false, "decode(encode(datagram)) failed"),
        }
        kani::cover!(hs == 8 && len == P, "8-byte id, max payload");
        kani::cover!(len == 0, "empty payload");
    }
}

// @h props=C14,C03,C16 tier=quick t=900 sub=datagram
// @fn wtransport-proto/src/datagram.rs Datagram::{new,write,write_size,header_size,read,payload,qstream_id}; wtransport-proto/src/ids.rs QStreamId::{from_session_id,try_from_varint}
// @bound every quarter stream id < 2^60; payload symbolic length <= 4, symbolic content; capacity 0..24
// @oracle wire == varint(qid)||payload (reference encoder); write returns write_size == header_size + len; read∘write = id; too-small buffer => Err and untouched
// @outside payloads > 4 bytes (thorough: 8)
#[kani::proof]
#[kani::unwind(26)]
fn c14_datagram_roundtrip_p4() {
    datagram_roundtrip::<4>()
}

// @h props=C14,C03 tier=thorough t=3000 sub=datagram
// @fn wtransport-proto/src/datagram.rs Datagram::{new,write,write_size,header_size,read}
// @bound as c14_datagram_roundtrip_p4 with payload <= 8 bytes
// @oracle as c14_datagram_roundtrip_p4
#[kani::proof]
#[kani::unwind(26)]
fn c14_datagram_roundtrip_p8() {
    datagram_roundtrip::<8>()
}

/// RFC 7541 §5.1 reference decoder in u128 (never overflows for <= 12 bytes): returns (flags, value, consumed)
pub fn ref_prefix_int(b: &[u8], n: u32) -> Option<(u8, u128, usize)> {
    if b.is_empty() {
        return None;
    }
    let mask: u128 = (1u128 << n) - 1;
    let flags = ((b[0] as u16) >> n) as u8;
    let mut v: u128 = (b[0] as u128) & mask;
    if v != mask {
        return Some((flags, v, 1));
    }
    let mut i = 1;
    let mut shift = 0u32;
    loop {
        if i >= b.len() {
            return None;
        }
        v += ((b[i] & 0x7f) as u128) << shift;
        shift += 7;
        let cont = b[i] & 0x80 != 0;
        i += 1;
        if !cont {
            break;
        }
    }
    Some((flags, v, i))
}

fn qpack_int_roundtrip<const N: usize>() {
    let value: usize = kani::any();
    let flags: u8 = kani::any();
    kani::assume(N == 8 || (flags as u16) < (1u16 << (8 - N)));
    kani::assume(N != 8 || flags == 0);
    let mut buf = [0u8; 12];
    let mut w = BufferWriter::new(&mut buf);
    q::encode_integer::<N, _>(flags, value, &mut w).unwrap();
    let n = w.offset();
    // independent reference decode of the produced bytes
    let (rf, rv, rc) = ref_prefix_int(&buf[..n], N as u32).unwrap();
    assert!(rc == n, "encoder wrote bytes after the terminating octet");
    assert!(rv == value as u128, "encoded integer does not denote the value (RFC 7541 §5.1 reference)");
    assert!(N == 8 || rf == flags, "flags altered by the encoder");
    // shortest form: the last continuation byte is never a padding zero
    assert!(n <= 2 || buf[n - 1] != 0, "over-long (zero padded) integer encoding");
    // real decoder consumes exactly the encoder's bytes
    buf[n] = kani::any();
    let mut s: &[u8] = &buf[..n + 1];
    match q::decode_integer::<N>(&mut s) {
        Ok((f2, v2)) => {
            assert!(v2 == value, "decode(encode(v)) != v");
            assert!(N == 8 || f2 == flags, "flags changed in round trip");
            assert!(s.len() == 1, "decoder did not consume exactly the encoding");
        }
        Err(_) => assert!(false, "decode(encode(v)) failed"),
    }
    kani::cover!(n == 1, "fits the prefix");
    kani::cover!(n == 11, "longest encoding");
    kani::cover!(value == usize::MAX, "usize::MAX");
}

// @h props=C14 tier=quick t=900 sub=qpack-int
// @fn wtransport-proto/src/qpack.rs Encoder::encode_integer::<3> Decoder::decode_integer::<3>
// @bound every usize value, every flag combination that fits above the 3-bit prefix
// @oracle independent RFC 7541 §5.1 decoder in u128: encoded bytes denote the value, no padding; real decoder returns value+flags and consumes exactly the encoding
#[kani::proof]
#[kani::unwind(14)]
fn c14_qpack_int_roundtrip_n3() {
    qpack_int_roundtrip::<3>()
}

// @h props=C14 tier=quick t=900 sub=qpack-int
// @fn wtransport-proto/src/qpack.rs Encoder::encode_integer::<4> Decoder::decode_integer::<4>
// @bound every usize value, every 4-bit flag combination
// @oracle as c14_qpack_int_roundtrip_n3
#[kani::proof]
#[kani::unwind(14)]
fn c14_qpack_int_roundtrip_n4() {
    qpack_int_roundtrip::<4>()
}

// @h props=C14 tier=thorough t=900 sub=qpack-int
// @fn wtransport-proto/src/qpack.rs Encoder::encode_integer::<5> Decoder::decode_integer::<5>
// @bound every usize value, every 3-bit flag combination
// @oracle as c14_qpack_int_roundtrip_n3
#[kani::proof]
#[kani::unwind(14)]
fn c14_qpack_int_roundtrip_n5() {
    qpack_int_roundtrip::<5>()
}

// @h props=C14 tier=quick t=900 sub=qpack-int
// @fn wtransport-proto/src/qpack.rs Encoder::encode_integer::<6> Decoder::decode_integer::<6>
// @bound every usize value, every 2-bit flag combination
// @oracle as c14_qpack_int_roundtrip_n3
#[kani::proof]
#[kani::unwind(14)]
fn c14_qpack_int_roundtrip_n6() {
    qpack_int_roundtrip::<6>()
}

// @h props=C14 tier=quick t=900 sub=qpack-int
// @fn wtransport-proto/src/qpack.rs Encoder::encode_integer::<7> Decoder::decode_integer::<7>
// @bound every usize value, flag bit 0/1
// @oracle as c14_qpack_int_roundtrip_n3
#[kani::proof]
#[kani::unwind(14)]
fn c14_qpack_int_roundtrip_n7() {
    qpack_int_roundtrip::<7>()
}

// @h props=C14 tier=quick t=900 sub=qpack-int
// @fn wtransport-proto/src/qpack.rs Encoder::encode_integer::<8> Decoder::decode_integer::<8>
// @bound every usize value (no flag bits with an 8-bit prefix)
// @oracle as c14_qpack_int_roundtrip_n3
#[kani::proof]
#[kani::unwind(14)]
fn c14_qpack_int_roundtrip_n8() {
    qpack_int_roundtrip::<8>()
}

// @h props=C14 tier=quick t=900 expect=fail sub=twin
// @fn wtransport-proto/src/varint.rs VarInt::size
// @bound twin: claims every varint fits 4 bytes; must be refuted
#[kani::proof]
fn c14_twin_must_fail() {
    let v = any_varint();
    assert!(v.size() <= 4, "twin: wrong oracle");
}

/// frame with a payload of exactly L bytes (filler 0x5A, first and last byte symbolic), buffer of T = L + 8 bytes:
/// write -> read round trip at the varint-length boundaries of the length field and at the parser's payload limit
fn frame_len_boundary<const L: usize, const T: usize>() {
    let mut payload = [0x5Au8; L];
    payload[0] = kani::any();
    payload[L - 1] = kani::any();
    let sel: u8 = kani::any();
    kani::assume(sel < 3);
    let (f, type_id) = match sel {
        0 => (Frame::new_data(Cow::Borrowed(&payload[..])), 0u64),
        1 => (Frame::new_headers(Cow::Borrowed(&payload[..])), 1),
        _ => (Frame::new_exercise(VarInt::from_u32(0x21), Cow::Borrowed(&payload[..])), 0x21),
    };
    let hdr = 1 + ref_varint_len(L as u64);
    assert!(f.write_size() == hdr + L, "write_size wrong at a length-field boundary");
    let mut buf = [0u8; T];
    let mut w = BufferWriter::new(&mut buf);
    f.write(&mut w).unwrap();
    let n = w.offset();
    assert!(n == hdr + L, "bytes written differ from write_size");
    let mut lenb = [0u8; 8];
    let ln = ref_varint_put(L as u64, &mut lenb);
    assert!(buf[0] == type_id as u8 && eq_prefix(&buf[1..], &lenb, ln), "length field is not the shortest varint");
    let mut s: &[u8] = &buf[..n];
    match Frame::read(&mut s) {
        Ok(Some(g)) => {
            assert!(kind_matches(g.kind(), type_id));
            assert!(g.payload().len() == L && g.payload()[0] == payload[0] && g.payload()[L - 1] == payload[L - 1], "payload changed in round trip");
            assert!(s.is_empty(), "decoder did not consume exactly the encoding");
            kani::cover!(true, "round trip at the boundary");
        }
        _ => assert!(false, "decode(encode(frame)) failed at a length boundary (payloads up to 4096 bytes must parse)"),
    }
}

// @h props=C14 tier=quick t=1200 sub=frame-len-boundary
// @fn wtransport-proto/src/frame.rs Frame::{write,write_size,read}
// @bound DATA / HEADERS / GREASE frame with a payload of exactly 63 bytes (largest 1-byte length field); first and last payload byte symbolic
// @oracle size == 1 + varint_len(L) + L, length field is the shortest varint, decode∘encode = id, exact consumption
#[kani::proof]
#[kani::unwind(10)]
fn c14_frame_len_63() {
    frame_len_boundary::<63, 71>()
}

// @h props=C14 tier=quick t=1200 sub=frame-len-boundary
// @fn wtransport-proto/src/frame.rs Frame::{write,write_size,read}
// @bound payload of exactly 64 bytes (smallest 2-byte length field)
// @oracle as c14_frame_len_63
#[kani::proof]
#[kani::unwind(10)]
fn c14_frame_len_64() {
    frame_len_boundary::<64, 72>()
}

// @h props=C14,C11,C12 tier=quick t=1800 mem=24 sub=frame-len-boundary
// @fn wtransport-proto/src/frame.rs Frame::{write,write_size,read} Frame::MAX_PARSE_PAYLOAD_ALLOWED
// @bound payload of exactly 4096 bytes: the largest payload the parser accepts
// @oracle as c14_frame_len_63: a frame the library can write at the documented limit must be readable by it
#[kani::proof]
#[kani::unwind(10)]
fn c14_frame_len_4096() {
    // DATA only, one symbolic byte: three kinds x two symbolic cells over 4 KiB arrays exceeded 16 GB
    let mut payload = [0x5Au8; 4096];
    payload[4095] = kani::any();
    let f = Frame::new_data(Cow::Borrowed(&payload[..]));
    assert!(f.write_size() == 1 + 2 + 4096);
    let mut buf = [0u8; 4100];
    let mut w = BufferWriter::new(&mut buf);
    f.write(&mut w).unwrap();
    let n = w.offset();
    assert!(n == 4099 && buf[0] == 0x00 && buf[1] == 0x50 && buf[2] == 0x00, "length field of a 4096-byte payload must be the 2-byte varint 0x5000");
    let mut s: &[u8] = &buf[..n];
    match Frame::read(&mut s) {
        Ok(Some(g)) => {
            assert!(matches!(g.kind(), FrameKind::Data) && g.payload().len() == 4096 && g.payload()[4095] == payload[4095]);
            assert!(s.is_empty());
            kani::cover!(true, "4096-byte payload round trip");
        }
        _ => assert!(false, "a frame with a payload of exactly 4096 bytes (the documented limit) was refused by the parser"),
    }
}

// @h props=C14 tier=thorough t=1800 sub=frame-len-boundary
// @fn wtransport-proto/src/frame.rs Frame::{write,write_size,read}
// @bound payload of exactly 1024 bytes
// @oracle as c14_frame_len_63
#[kani::proof]
#[kani::unwind(10)]
fn c14_frame_len_1024() {
    frame_len_boundary::<1024, 1032>()
}
