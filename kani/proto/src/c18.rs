//! C18 — only well-formed requests and responses are admitted (E1 part: StatusCode constructors; the header-map
//! admission predicates are in the mirror crate)
use crate::common::*;
use wtransport_proto::ids::StatusCode;

// @h props=C18 tier=quick t=300 sub=status-numeric
// @fn wtransport-proto/src/ids.rs StatusCode::{try_from<u8>,try_from<u16>,try_from<u32>,try_from<u64>,try_from_u32,into_inner,is_successful,MIN,MAX}
// @bound every u8, u16, u32 and u64 value (whole types)
// @oracle Ok(v) <=> 100 <= v <= 599, value preserved; is_successful <=> 200..=299
#[kani::proof]
fn c18_status_numeric() {
    let a: u8 = kani::any();
    match StatusCode::try_from(a) {
        Ok(c) => assert!(a >= 100 && c.into_inner() == a as u16),
        Err(_) => assert!(a < 100),
    }
    let b: u16 = kani::any();
    match StatusCode::try_from(b) {
        Ok(c) => {
            assert!((100..=599).contains(&b) && c.into_inner() == b);
            assert!(c.is_successful() == (b >= 200 && b <= 299), "is_successful is not exactly 2xx");
            kani::cover!(b == 599, "599");
            kani::cover!(c.is_successful(), "2xx");
        }
        Err(_) => assert!(b < 100 || b > 599),
    }
    let c32: u32 = kani::any();
    match StatusCode::try_from(c32) {
        Ok(c) => assert!((100..=599).contains(&c32) && c.into_inner() as u32 == c32),
        Err(_) => {
            assert!(c32 < 100 || c32 > 599);
            kani::cover!(c32 == 65536 + 200, "value that truncates into range is refused");
        }
    }
    assert!(StatusCode::try_from_u32(c32).is_ok() == (100..=599).contains(&c32));
    let d: u64 = kani::any();
    match StatusCode::try_from(d) {
        Ok(c) => assert!((100..=599).contains(&d) && c.into_inner() as u64 == d),
        Err(_) => {
            assert!(d < 100 || d > 599);
            kani::cover!(d == (1u64 << 32) + 200, "u64 that truncates into range is refused");
        }
    }
    assert!(StatusCode::MIN.into_inner() == 100 && StatusCode::MAX.into_inner() == 599);
}

fn status_from_str<const L: usize>() {
    let b: [u8; L] = kani::any();
    let len: usize = kani::any();
    kani::assume(len <= L);
    let mut i = 0;
    while i < L {
        kani::assume(b[i] < 0x80);
        i += 1;
    }
    // SAFETY: ASCII
    let s = unsafe { std::str::from_utf8_unchecked(&b[..len]) };
    // reference: decimal value of a digits-only string (saturating; L <= 6 digits cannot overflow u32)
    let mut all_digits = len > 0;
    let mut val: u32 = 0;
    let mut i = 0;
    while i < len {
        if b[i] >= b'0' && b[i] <= b'9' {
            val = val * 10 + (b[i] - b'0') as u32;
        } else {
            all_digits = false;
        }
        i += 1;
    }
    // a single leading '+' followed by digits is what a plain `parse::<u16>()` + range check would admit;
    // it is tolerated (reported by the cover below only), everything else non-numeric must be refused
    let mut plus_digits = len > 1 && b[0] == b'+';
    let mut pval: u32 = 0;
    let mut i = 1;
    while i < len {
        if b[i] >= b'0' && b[i] <= b'9' {
            pval = pval * 10 + (b[i] - b'0') as u32;
        } else {
            plus_digits = false;
        }
        i += 1;
    }
    match s.parse::<StatusCode>() {
        Ok(c) => {
            let v = c.into_inner();
            assert!(v >= 100 && v <= 599, "status code outside 100..=599 escaped through FromStr");
            assert!(all_digits || plus_digits, "non-numeric status text admitted");
            if all_digits {
                assert!(v as u32 == val, "status value differs from the decimal text");
            } else {
                assert!(v as u32 == pval);
            }
            kani::cover!(v == 100, "100 accepted");
            kani::cover!(v == 599, "599 accepted");
        }
        Err(_) => {
            assert!(!(all_digits && val >= 100 && val <= 599), "valid status text refused");
            kani::cover!(all_digits && val == 600, "600 refused");
            kani::cover!(all_digits && val == 99, "99 refused");
            kani::cover!(len == 0, "empty refused");
        }
    }
}

// @h props=C18 tier=quick t=900 sub=status-from-str
// @fn wtransport-proto/src/ids.rs <StatusCode as FromStr>::from_str
// @bound every ASCII string of length 0..=5
// @oracle Ok(c) => 100 <= c <= 599 and c is the decimal value of the (digits-only, or '+'digits) text; any other text => Err; every digits-only text in range => Ok
// @outside non-ASCII text; strings > 5 bytes (thorough 6)
#[kani::proof]
#[kani::unwind(8)]
fn c18_status_from_str_5() {
    status_from_str::<5>()
}

// @h props=C18 tier=thorough t=1800 sub=status-from-str
// @fn wtransport-proto/src/ids.rs <StatusCode as FromStr>::from_str
// @bound every ASCII string of length 0..=6
// @oracle as c18_status_from_str_5
#[kani::proof]
#[kani::unwind(9)]
fn c18_status_from_str_6() {
    status_from_str::<6>()
}

// @h props=C18 tier=quick t=900 expect=fail sub=twin
// @fn wtransport-proto/src/ids.rs StatusCode::try_from<u16>
// @bound twin: claims no status above 299 is accepted; must be refuted
#[kani::proof]
fn c18_twin_must_fail() {
    let b: u16 = kani::any();
    if let Ok(c) = StatusCode::try_from(b) {
        assert!(c.into_inner() < 300, "twin: wrong oracle");
    }
}
