//! C17 — identifier algebra (all 2^62 ids)
use crate::common::*;
use wtransport_proto::ids::{QStreamId, SessionId, StreamId};
use wtransport_proto::varint::VarInt;

// @h props=C17 tier=quick t=300 sub=ids-algebra
// @fn wtransport-proto/src/ids.rs StreamId::{is_bidirectional,is_client_initiated,is_local,new,into_u64} SessionId::{try_from_session_stream,session_stream,into_u64} QStreamId::{from_session_id,into_session_id,into_stream_id,MAX}
// @bound every 62-bit id (no bound beyond the type)
// @oracle QUIC definition: bit0 = initiator, bit1 = direction; session id accepted iff v mod 4 == 0; q = v >> 2 <= 2^60-1; q << 2 == v
#[kani::proof]
fn c17_ids_algebra() {
    let v: u64 = kani::any();
    kani::assume(v <= VMAX);
    let vi = VarInt::try_from_u64(v).unwrap();
    let sid = StreamId::new(vi);
    assert_eq!(sid.into_u64(), v);
    assert_eq!(sid.is_bidirectional(), v & 2 == 0);
    assert_eq!(sid.is_client_initiated(), v & 1 == 0);
    let is_server: bool = kani::any();
    assert_eq!(sid.is_local(is_server), (v & 1 == 1) == is_server);
    match SessionId::try_from_session_stream(sid) {
        Ok(s) => {
            assert!(v & 3 == 0, "session id accepted on a stream that is not client-initiated bidirectional");
            assert_eq!(s.into_u64(), v);
            assert_eq!(s.session_stream().into_u64(), v);
            let q = QStreamId::from_session_id(s);
            assert_eq!(q.into_u64(), v >> 2);
            assert!(q.into_u64() <= QStreamId::MAX.into_u64());
            assert_eq!(q.into_session_id().into_u64(), v);
            assert_eq!(q.into_stream_id().into_u64(), v);
            kani::cover!(v == VMAX - 3, "largest session id");
        }
        Err(_) => {
            assert!(v & 3 != 0, "client-initiated bidirectional stream refused as session id");
            kani::cover!(v & 3 == 2, "client uni refused");
        }
    }
    assert_eq!(QStreamId::MAX.into_u64(), (1u64 << 60) - 1);
}

// @h props=C17 tier=quick t=900 expect=fail sub=twin
// @fn wtransport-proto/src/ids.rs SessionId::try_from_session_stream
// @bound twin: deliberately wrong oracle (v mod 4 == 1), must be refuted by the solver
#[kani::proof]
fn c17_twin_must_fail() {
    let v: u64 = kani::any();
    kani::assume(v <= VMAX);
    let sid = StreamId::new(VarInt::try_from_u64(v).unwrap());
    if SessionId::try_from_session_stream(sid).is_ok() {
        assert!(v & 3 == 1, "twin: wrong oracle");
    }
}
