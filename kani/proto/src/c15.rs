//! C15 — all decoding paths agree and incomplete input is never consumed
//!  L0: one-shot vs buffered;  L1: async primitives, one inductive step from an arbitrary state (covers every
//!  chunking and Pending pattern, histories of any length);  L2: async compositions vs the one-shot parser
use crate::c11::kind_id;
use crate::c13::control_stream;
use crate::common::*;
use std::future::Future;
use std::pin::Pin;
use std::task::{Context, Poll, Waker};
use wtransport_proto::bytes::r#async::{GetBuffer, GetVarint, PutBuffer, PutVarint};
use wtransport_proto::bytes::{self as wbytes, AsyncRead, AsyncWrite, BufferReader, BufferWriter, BytesReader, BytesWriter};
use wtransport_proto::error::ErrorCode;
use wtransport_proto::frame::{self, Frame, FrameKind};
use wtransport_proto::stream::uniremote::MaybeUpgradeH3;
use wtransport_proto::stream::{self, Stream};
use wtransport_proto::stream_header::{self, StreamHeader, StreamKind};
use wtransport_proto::varint::VarInt;

// ---------------------------------------------------------------------------------------------- L1

/// Reader environment for one poll(): up to `budget` Ready results, each delivering 0 (EOF) ..= buf.len()
/// arbitrary bytes, or an I/O error, then Pending. Records what it delivered.
pub struct StepReader {
    pub budget: usize,
    pub delivered: [u8; 8],
    pub ndeliv: usize,
    pub eof: bool,
    pub errored: bool,
    pub calls_after_end: usize,
}
impl StepReader {
    pub fn new(budget: usize) -> Self {
        Self { budget, delivered: [0; 8], ndeliv: 0, eof: false, errored: false, calls_after_end: 0 }
    }
}
impl AsyncRead for StepReader {
    fn poll_read(self: Pin<&mut Self>, _cx: &mut Context<'_>, buf: &mut [u8]) -> Poll<std::io::Result<usize>> {
        let this = self.get_mut();
        if this.eof || this.errored {
            this.calls_after_end += 1;
        }
        if this.budget == 0 {
            return Poll::Pending;
        }
        let pend: bool = kani::any();
        if pend {
            this.budget = 0;
            return Poll::Pending;
        }
        this.budget -= 1;
        let err: bool = kani::any();
        if err {
            this.errored = true;
            return Poll::Ready(Err(std::io::ErrorKind::NotConnected.into()));
        }
        let n: usize = kani::any();
        kani::assume(n <= buf.len() && n <= 8 - this.ndeliv);
        let bytes: [u8; 8] = kani::any();
        let mut i = 0;
        while i < 8 {
            if i < n {
                buf[i] = bytes[i];
                this.delivered[this.ndeliv + i] = bytes[i];
            }
            i += 1;
        }
        this.ndeliv += n;
        if n == 0 {
            this.eof = true;
        }
        Poll::Ready(Ok(n))
    }
}

// @h props=C15,C11,C01 tier=quick t=900 sub=L1-get-varint
// @fn wtransport-proto/src/bytes.rs <GetVarint as Future>::poll GetVarint::new
// @bound every state satisfying the representation invariant (offset <= varint_size = parse_size(buffer[0]) once offset > 0; not yet complete); reader step = Pending | EOF | I/O error | n arbitrary bytes (1 <= n <= requested), up to 2 Ready results in one poll
// @oracle inductive step: invariant preserved; buffer == old bytes ++ delivered bytes in order; never more bytes requested than the varint needs (no over-read); Ready(v) => v is the RFC 9000 value of exactly those bytes; EOF => ImmediateFin iff nothing was ever consumed, else UnexpectedFin; error passed through; the source is never polled again after EOF/error
// @assume <bytes::IoReadError as From<io::Error>>::from stubbed (maps to NotConnected; real mapping checked in c15_io_error_mapping)
#[kani::proof]
#[kani::unwind(10)]
#[kani::stub(<wtransport_proto::bytes::IoReadError as std::convert::From<std::io::Error>>::from, crate::common::io_read_err_stub)]
fn c15_l1_get_varint_step() {
    let buffer: [u8; 8] = kani::any();
    let offset: usize = kani::any();
    let varint_size: usize = kani::any();
    kani::assume(offset <= 8);
    if offset == 0 {
        kani::assume(varint_size == 0);
    } else {
        kani::assume(varint_size == 1usize << (buffer[0] >> 6) && offset <= varint_size);
    }
    // a completed future is never polled again
    kani::assume(offset == 0 || offset < varint_size);
    // base case: GetVarint::new() satisfies the invariant -- checked by c15_l1_get_varint_init

    let mut env = StepReader::new(2);
    let mut fut = GetVarint::verif_from_parts(&mut env, buffer, offset, varint_size);
    let mut cx = Context::from_waker(Waker::noop());
    let r = Pin::new(&mut fut).poll(&mut cx);
    let (b2, o2, s2) = fut.verif_parts();
    drop(fut);
    assert!(env.calls_after_end == 0, "source polled again after EOF / error");
    // bytes: old prefix kept, delivered appended in order
    let mut i = 0;
    while i < 8 {
        if i < offset {
            assert!(b2[i] == buffer[i], "already consumed bytes lost");
        } else if i < offset + env.ndeliv {
            assert!(b2[i] == env.delivered[i - offset], "delivered bytes not stored in order");
        }
        i += 1;
    }
    match r {
        Poll::Pending => {
            assert!(o2 == offset + env.ndeliv && o2 <= 8);
            if o2 > 0 {
                assert!(s2 == 1usize << (b2[0] >> 6) && o2 < s2, "invariant broken / complete varint not returned");
            } else {
                assert!(s2 == 0);
            }
            assert!(!env.eof && !env.errored);
            kani::cover!(env.ndeliv == 2 && o2 == 3, "progress then Pending mid-varint");
        }
        Poll::Ready(Ok(v)) => {
            assert!(o2 == s2 && o2 == offset + env.ndeliv, "completed with a wrong number of bytes (over/under-read)");
            let (rv, rn) = ref_varint_get(&b2[..o2]).unwrap();
            assert!(rn == o2 && rv == v.into_inner(), "wrong varint value");
            kani::cover!(o2 == 8 && offset == 3, "8-byte varint completed from a partial state");
            kani::cover!(o2 == 1 && offset == 0, "1-byte varint");
        }
        Poll::Ready(Err(wbytes::IoReadError::ImmediateFin)) => {
            assert!(env.eof && offset == 0 && env.ndeliv == 0, "ImmediateFin although bytes were consumed");
            kani::cover!(true, "immediate fin");
        }
        Poll::Ready(Err(wbytes::IoReadError::UnexpectedFin)) => {
            assert!(env.eof && offset + env.ndeliv > 0, "UnexpectedFin although nothing was consumed");
            kani::cover!(offset == 0, "fin after the first byte in the same poll");
        }
        Poll::Ready(Err(wbytes::IoReadError::NotConnected)) => {
            assert!(env.errored, "error invented");
            kani::cover!(true, "io error passed through");
        }
        Poll::Ready(Err(_)) => assert!(false, "unexpected error class"),
    }
}

// @h props=C15 tier=quick t=300 sub=L1-init
// @fn wtransport-proto/src/bytes.rs GetVarint::new GetBuffer::new PutVarint::new PutBuffer::new (through BytesReaderAsync/BytesWriterAsync)
// @bound base case of the L1 induction: the constructors yield states satisfying the invariants assumed by the step harnesses; PutVarint::new stores the RFC 9000 encoding for every varint
// @oracle offset == 0, varint_size == 0 (Get) / == size() and buffer == reference encoding (Put)
#[kani::proof]
#[kani::unwind(10)]
fn c15_l1_init() {
    use wtransport_proto::bytes::{BytesReaderAsync, BytesWriterAsync};
    let mut env = StepReader::new(0);
    let g = env.get_varint();
    let (_, o, s) = g.verif_parts();
    assert!(o == 0 && s == 0);
    drop(g);
    let mut dst = [0u8; 4];
    let gb = env.get_buffer(&mut dst);
    let (b, o) = gb.verif_parts();
    assert!(o == 0 && b.len() == 4);
    drop(gb);
    let v = any_varint();
    let mut w = ByteWriter::<8>::new();
    let p = w.put_varint(v);
    let (pb, po, ps) = p.verif_parts();
    let mut refb = [0u8; 8];
    let rn = ref_varint_put(v.into_inner(), &mut refb);
    assert!(po == 0 && ps == rn && eq_prefix(&pb, &refb, rn), "PutVarint does not hold the reference encoding");
    kani::cover!(rn == 8, "8-byte");
}

// @h props=C15,C11 tier=quick t=900 sub=L1-get-buffer
// @fn wtransport-proto/src/bytes.rs <GetBuffer as Future>::poll
// @bound destination length 0..=4, every offset <= length (not complete unless length 0), arbitrary old contents; reader step as in c15_l1_get_varint_step
// @oracle inductive step: bytes before offset untouched, delivered bytes appended in order, never past the destination; completes exactly when full; EOF => ImmediateFin iff offset was and stays 0 else UnexpectedFin; error passed through
// @assume From<io::Error> stub as above
#[kani::proof]
#[kani::unwind(10)]
#[kani::stub(<wtransport_proto::bytes::IoReadError as std::convert::From<std::io::Error>>::from, crate::common::io_read_err_stub)]
fn c15_l1_get_buffer_step() {
    let old: [u8; 4] = kani::any();
    let mut dst = old;
    let blen: usize = kani::any();
    kani::assume(blen <= 4);
    let offset: usize = kani::any();
    kani::assume(offset <= blen && (offset < blen || blen == 0));
    let mut env = StepReader::new(2);
    let mut fut = GetBuffer::verif_from_parts(&mut env, &mut dst[..blen], offset);
    let mut cx = Context::from_waker(Waker::noop());
    let r = Pin::new(&mut fut).poll(&mut cx);
    let (_, o2) = fut.verif_parts();
    drop(fut);
    assert!(env.calls_after_end == 0, "source polled again after EOF / error");
    let mut i = 0;
    while i < 4 {
        if i < offset || i >= blen {
            assert!(dst[i] == old[i], "bytes outside the unread region modified");
        } else if i < offset + env.ndeliv {
            assert!(dst[i] == env.delivered[i - offset], "delivered bytes not stored in order");
        }
        i += 1;
    }
    match r {
        Poll::Pending => {
            assert!(o2 == offset + env.ndeliv && o2 < blen && !env.eof && !env.errored);
            kani::cover!(env.ndeliv == 2, "two chunks then Pending");
        }
        Poll::Ready(Ok(())) => {
            assert!(o2 == blen && o2 == offset + env.ndeliv, "completed without filling the destination exactly");
            kani::cover!(blen == 4 && offset == 1, "completed from a partial state");
            kani::cover!(blen == 0, "empty destination completes without reading");
        }
        Poll::Ready(Err(wbytes::IoReadError::ImmediateFin)) => {
            assert!(env.eof && offset == 0 && env.ndeliv == 0);
            kani::cover!(true, "immediate fin");
        }
        Poll::Ready(Err(wbytes::IoReadError::UnexpectedFin)) => {
            assert!(env.eof && offset + env.ndeliv > 0);
            kani::cover!(true, "unexpected fin");
        }
        Poll::Ready(Err(wbytes::IoReadError::NotConnected)) => assert!(env.errored),
        Poll::Ready(Err(_)) => assert!(false, "unexpected error class"),
    }
}

/// Writer environment for one poll(): up to `budget` Ready results accepting 1..=buf.len() bytes, or an error, then Pending
pub struct StepWriter {
    pub budget: usize,
    pub accepted: [u8; 8],
    pub nacc: usize,
    pub errored: bool,
    pub calls_after_end: usize,
}
impl AsyncWrite for StepWriter {
    fn poll_write(self: Pin<&mut Self>, _cx: &mut Context<'_>, buf: &[u8]) -> Poll<std::io::Result<usize>> {
        let this = self.get_mut();
        if this.errored {
            this.calls_after_end += 1;
        }
        assert!(!buf.is_empty(), "poll_write called with an empty buffer");
        if this.budget == 0 {
            return Poll::Pending;
        }
        let pend: bool = kani::any();
        if pend {
            this.budget = 0;
            return Poll::Pending;
        }
        this.budget -= 1;
        let err: bool = kani::any();
        if err {
            this.errored = true;
            return Poll::Ready(Err(std::io::ErrorKind::NotConnected.into()));
        }
        let n: usize = kani::any();
        kani::assume(n >= 1 && n <= buf.len() && n <= 8 - this.nacc);
        let mut i = 0;
        while i < n {
            this.accepted[this.nacc + i] = buf[i];
            i += 1;
        }
        this.nacc += n;
        Poll::Ready(Ok(n))
    }
}

// @h props=C15,C14 tier=quick t=900 sub=L1-put-varint
// @fn wtransport-proto/src/bytes.rs <PutVarint as Future>::poll
// @bound every state with offset < varint_size <= 8 and arbitrary buffer; writer step = Pending | error | accepts n bytes (1 <= n <= offered), up to 2 Ready results
// @oracle inductive step: bytes offered are exactly buffer[offset..varint_size] in order, nothing re-sent or skipped; completes exactly at varint_size; error passed through
// @assume <bytes::IoWriteError as From<io::Error>>::from stubbed
#[kani::proof]
#[kani::unwind(10)]
#[kani::stub(<wtransport_proto::bytes::IoWriteError as std::convert::From<std::io::Error>>::from, crate::common::io_write_err_stub)]
fn c15_l1_put_varint_step() {
    let buffer: [u8; 8] = kani::any();
    let offset: usize = kani::any();
    let size: usize = kani::any();
    kani::assume(size >= 1 && size <= 8 && offset < size);
    let mut env = StepWriter { budget: 2, accepted: [0; 8], nacc: 0, errored: false, calls_after_end: 0 };
    let mut fut = PutVarint::verif_from_parts(&mut env, buffer, offset, size);
    let mut cx = Context::from_waker(Waker::noop());
    let r = Pin::new(&mut fut).poll(&mut cx);
    let (b2, o2, s2) = fut.verif_parts();
    drop(fut);
    assert!(env.calls_after_end == 0);
    assert!(s2 == size && o2 == offset + env.nacc && o2 <= size, "offset does not track the accepted bytes");
    let mut i = 0;
    while i < 8 {
        assert!(b2[i] == buffer[i]);
        if i < env.nacc {
            assert!(env.accepted[i] == buffer[offset + i], "bytes emitted out of order / duplicated");
        }
        i += 1;
    }
    match r {
        Poll::Pending => {
            assert!(o2 < size && !env.errored);
            kani::cover!(env.nacc == 3, "partial write then Pending");
        }
        Poll::Ready(Ok(())) => {
            assert!(o2 == size, "completed before everything was written");
            kani::cover!(size == 8 && offset == 2, "completed from a partial state");
        }
        Poll::Ready(Err(_)) => {
            assert!(env.errored);
            kani::cover!(true, "error passed through");
        }
    }
}

// @h props=C15,C14,C01 tier=quick t=900 sub=L1-put-buffer
// @fn wtransport-proto/src/bytes.rs <PutBuffer as Future>::poll
// @bound source length 0..=4, every offset <= length (incomplete unless empty); writer step as in c15_l1_put_varint_step
// @oracle inductive step: bytes offered are exactly buffer[offset..] in order; completes exactly at the end; an empty buffer completes without calling the writer
// @assume From<io::Error> stub as above
#[kani::proof]
#[kani::unwind(10)]
#[kani::stub(<wtransport_proto::bytes::IoWriteError as std::convert::From<std::io::Error>>::from, crate::common::io_write_err_stub)]
fn c15_l1_put_buffer_step() {
    let src: [u8; 4] = kani::any();
    let blen: usize = kani::any();
    kani::assume(blen <= 4);
    let offset: usize = kani::any();
    kani::assume(offset <= blen && (offset < blen || blen == 0));
    let mut env = StepWriter { budget: 2, accepted: [0; 8], nacc: 0, errored: false, calls_after_end: 0 };
    let mut fut = PutBuffer::verif_from_parts(&mut env, &src[..blen], offset);
    let mut cx = Context::from_waker(Waker::noop());
    let r = Pin::new(&mut fut).poll(&mut cx);
    let (_, o2) = fut.verif_parts();
    drop(fut);
    assert!(o2 == offset + env.nacc && o2 <= blen);
    let mut i = 0;
    while i < env.nacc {
        assert!(env.accepted[i] == src[offset + i], "bytes emitted out of order / duplicated");
        i += 1;
    }
    match r {
        Poll::Pending => assert!(o2 < blen && !env.errored),
        Poll::Ready(Ok(())) => {
            assert!(o2 == blen);
            kani::cover!(blen == 4 && offset == 1 && env.nacc == 3, "completed from a partial state");
            kani::cover!(blen == 0, "empty buffer");
        }
        Poll::Ready(Err(_)) => assert!(env.errored),
    }
}

// @h props=C15 tier=quick t=300 sub=io-error-mapping
// @fn wtransport-proto/src/bytes.rs <IoReadError as From<io::Error>>::from <IoWriteError as From<io::Error>>::from
// @bound the two documented kinds plus three others, concrete (io::Error's bit-packed repr is not explored symbolically)
// @oracle ConnectionReset => Reset / Stopped; anything else => NotConnected
#[kani::proof]
fn c15_io_error_mapping() {
    use std::io::{Error, ErrorKind};
    assert!(matches!(wbytes::IoReadError::from(Error::from(ErrorKind::ConnectionReset)), wbytes::IoReadError::Reset));
    assert!(matches!(wbytes::IoReadError::from(Error::from(ErrorKind::NotConnected)), wbytes::IoReadError::NotConnected));
    assert!(matches!(wbytes::IoReadError::from(Error::from(ErrorKind::UnexpectedEof)), wbytes::IoReadError::NotConnected));
    assert!(matches!(wbytes::IoWriteError::from(Error::from(ErrorKind::ConnectionReset)), wbytes::IoWriteError::Stopped));
    assert!(matches!(wbytes::IoWriteError::from(Error::from(ErrorKind::NotConnected)), wbytes::IoWriteError::NotConnected));
    assert!(matches!(wbytes::IoWriteError::from(Error::from(ErrorKind::BrokenPipe)), wbytes::IoWriteError::NotConnected));
    kani::cover!(true, "reached");
}

// ---------------------------------------------------------------------------------------------- L0

// @h props=C15 tier=quick t=1200 sub=L0-frame
// @fn wtransport-proto/src/frame.rs Frame::{read,read_from_buffer}; wtransport-proto/src/bytes.rs BufferReader::child BufferReaderChild::commit
// @bound every byte string of length 0..=10 placed after a parent offset 0..=2
// @oracle same value / need-more / error as the one-shot parser on the same bytes; on None or Err the parent offset is unchanged; on Some it advanced by exactly the bytes the one-shot parser consumed
#[kani::proof]
#[kani::unwind(14)]
fn c15_l0_frame() {
    let buf: [u8; 12] = kani::any();
    let pre: usize = kani::any();
    let len: usize = kani::any();
    kani::assume(pre <= 2 && len <= 10);
    let whole = &buf[..pre + len];
    let mut s: &[u8] = &whole[pre..];
    let a = Frame::read(&mut s);
    let consumed = len - s.len();
    let mut r = BufferReader::new(whole);
    r.skip(pre).unwrap();
    let b = Frame::read_from_buffer(&mut r);
    match (a, b) {
        (Ok(Some(fa)), Ok(Some(fb))) => {
            assert!(kind_id(fa.kind()) == kind_id(fb.kind()) && fa.payload().len() == fb.payload().len());
            assert!(eq_prefix(fa.payload(), fb.payload(), fa.payload().len()));
            assert!(fa.session_id().map(|s| s.into_u64()) == fb.session_id().map(|s| s.into_u64()));
            assert!(r.offset() == pre + consumed, "buffered reader advanced by a different amount");
            kani::cover!(pre == 2 && consumed == 10, "frame fills the buffer after a parent offset");
        }
        (Ok(None), Ok(None)) => {
            assert!(r.offset() == pre, "buffered reader advanced on incomplete input");
            kani::cover!(len == 9, "incomplete");
        }
        (Err(ea), Err(eb)) => {
            assert!(core::mem::discriminant(&ea) == core::mem::discriminant(&eb), "different error class");
            assert!(r.offset() == pre, "buffered reader advanced on error");
            kani::cover!(matches!(ea, frame::ParseError::PayloadTooBig), "too big");
        }
        _ => assert!(false, "one-shot and buffered Frame readers disagree"),
    }
}

// @h props=C15 tier=quick t=1200 sub=L0-stream-header
// @fn wtransport-proto/src/stream_header.rs StreamHeader::{read,read_from_buffer}
// @bound every byte string of length 0..=12 after a parent offset 0..=2
// @oracle as c15_l0_frame
#[kani::proof]
#[kani::unwind(16)]
fn c15_l0_stream_header() {
    let buf: [u8; 14] = kani::any();
    let pre: usize = kani::any();
    let len: usize = kani::any();
    kani::assume(pre <= 2 && len <= 12);
    let whole = &buf[..pre + len];
    let mut s: &[u8] = &whole[pre..];
    let a = StreamHeader::read(&mut s);
    let consumed = len - s.len();
    let mut r = BufferReader::new(whole);
    r.skip(pre).unwrap();
    let b = StreamHeader::read_from_buffer(&mut r);
    match (a, b) {
        (Ok(Some(ha)), Ok(Some(hb))) => {
            assert!(core::mem::discriminant(&ha.kind()) == core::mem::discriminant(&hb.kind()));
            assert!(ha.session_id().map(|s| s.into_u64()) == hb.session_id().map(|s| s.into_u64()));
            assert!(r.offset() == pre + consumed);
            kani::cover!(consumed == 10, "WT header with 8-byte id");
        }
        (Ok(None), Ok(None)) => {
            assert!(r.offset() == pre);
            kani::cover!(len == 5, "incomplete");
        }
        (Err(ea), Err(eb)) => {
            assert!(core::mem::discriminant(&ea) == core::mem::discriminant(&eb));
            assert!(r.offset() == pre);
            kani::cover!(true, "error");
        }
        _ => assert!(false, "one-shot and buffered StreamHeader readers disagree"),
    }
}

macro_rules! l0_typestate {
    ($name:ident, $mk:expr) => {
        #[kani::proof]
        #[kani::unwind(8)]
        fn $name() {
            let buf: [u8; 6] = kani::any();
            let pre: usize = kani::any();
            let len: usize = kani::any();
            kani::assume(pre <= 1 && len <= 5);
            let whole = &buf[..pre + len];
            let mut sa = $mk;
            let mut sb = $mk;
            let mut s: &[u8] = &whole[pre..];
            let a = sa.read_frame(&mut s);
            let consumed = len - s.len();
            let mut r = BufferReader::new(whole);
            r.skip(pre).unwrap();
            let b = sb.read_frame_from_buffer(&mut r);
            match (a, b) {
                (Ok(Some(fa)), Ok(Some(fb))) => {
                    assert!(kind_id(fa.kind()) == kind_id(fb.kind()) && fa.payload().len() == fb.payload().len());
                    assert!(eq_prefix(fa.payload(), fb.payload(), fa.payload().len()));
                    assert!(r.offset() == pre + consumed, "buffered typestate reader advanced by a different amount");
                    kani::cover!(consumed >= 4, "frame after a skipped frame / with payload");
                }
                (Ok(None), Ok(None)) => {
                    assert!(r.offset() == pre, "buffered typestate reader advanced on incomplete input");
                    kani::cover!(len >= 2, "incomplete");
                }
                (Err(ea), Err(eb)) => {
                    assert!(ea.to_code().into_inner() == eb.to_code().into_inner(), "different error code");
                    assert!(r.offset() == pre, "buffered typestate reader advanced on error");
                    kani::cover!(true, "error");
                }
                _ => assert!(false, "one-shot and buffered typestate readers disagree"),
            }
        }
    };
}

// @h props=C15 tier=quick t=1800 sub=L0-typestate-control
// @fn wtransport-proto/src/stream.rs StreamUniRemoteH3::{read_frame,read_frame_from_buffer}
// @bound every byte string of length 0..=5 after a parent offset 0..=1
// @oracle read_frame == read_frame_from_buffer (value, error code); offset unchanged on None/Err, advanced by the consumed bytes on Some
l0_typestate!(c15_l0_typestate_control, control_stream());

// @h props=C15 tier=quick t=1800 sub=L0-typestate-biremote
// @fn wtransport-proto/src/stream.rs StreamBiRemoteH3::{read_frame,read_frame_from_buffer}
// @bound as c15_l0_typestate_control
// @oracle as c15_l0_typestate_control
l0_typestate!(c15_l0_typestate_biremote, Stream::accept_bi().upgrade());

// @h props=C15 tier=thorough t=1800 sub=L0-typestate-bilocal
// @fn wtransport-proto/src/stream.rs StreamBiLocalH3::{read_frame,read_frame_from_buffer}
// @bound as c15_l0_typestate_control
// @oracle as c15_l0_typestate_control
l0_typestate!(c15_l0_typestate_bilocal, Stream::open_bi().upgrade());

// ---------------------------------------------------------------------------------------------- L2

/// inputs for L2: 1-byte frame/stream types with payload length <= 3, or the 2-byte WT signal / WT stream type
fn l2_input<const N: usize>(wt0: u8, wt1: u8) -> ([u8; N], usize) {
    let buf: [u8; N] = kani::any();
    let len: usize = kani::any();
    kani::assume(len <= N);
    kani::assume((buf[0] < 0x40 && buf[1] <= 3) || (buf[0] == wt0 && buf[1] == wt1));
    (buf, len)
}

// @h props=C15 tier=quick t=1800 sub=L2-frame
// @fn wtransport-proto/src/frame.rs Frame::{read_async,read}; wtransport-proto/src/bytes.rs GetVarint GetBuffer (through BytesReaderAsync)
// @bound every byte string of length 0..=6 whose frame type is a 1-byte varint with payload length <= 3, or the WT signal 0x40 0x41 followed by anything; delivered one byte per read, never Pending (other chunkings / Pending: L1)
// @oracle same value (kind, payload, session id) and same bytes consumed as Frame::read, same error class; proper prefix => ImmediateFin at length 0, UnexpectedFin otherwise, source fully drained, never a value
// @assume From<io::Error> stub; model source never errors
// @outside inputs > 6 bytes; 2/4/8-byte frame types other than the WT signal (thorough)
#[kani::proof]
#[kani::unwind(9)]
#[kani::stub(<wtransport_proto::bytes::IoReadError as std::convert::From<std::io::Error>>::from, crate::common::io_read_err_stub)]
fn c15_l2_frame() {
    let (buf, len) = l2_input::<6>(0x40, 0x41);
    let mut s: &[u8] = &buf[..len];
    let sync = Frame::read(&mut s);
    let sync_consumed = len - s.len();
    let mut rd = ByteReader::<6> { data: buf, len, off: 0 };
    let asy = match poll_once(Frame::read_async(&mut rd)) {
        Some(a) => a,
        None => {
            assert!(false, "future Pending although the source never is");
            return;
        }
    };
    match (sync, asy) {
        (Ok(Some(fs)), Ok(fa)) => {
            assert!(kind_id(fs.kind()) == kind_id(fa.kind()), "kind differs");
            assert!(fs.payload().len() == fa.payload().len() && eq_prefix(fs.payload(), fa.payload(), fs.payload().len()), "payload differs");
            assert!(fs.session_id().map(|s| s.into_u64()) == fa.session_id().map(|s| s.into_u64()));
            assert!(sync_consumed == rd.off, "async reader consumed a different number of bytes");
            kani::cover!(fs.payload().len() == 3, "3-byte payload");
            kani::cover!(fs.session_id().is_some(), "WT signal");
            core::mem::forget(fa);
        }
        (Ok(None), Err(frame::IoReadError::IO(wbytes::IoReadError::ImmediateFin))) => {
            assert!(len == 0, "ImmediateFin after bytes were read");
            kani::cover!(true, "empty input");
        }
        (Ok(None), Err(frame::IoReadError::IO(wbytes::IoReadError::UnexpectedFin))) => {
            assert!(len > 0 && rd.off == len, "UnexpectedFin without draining the prefix");
            kani::cover!(len == 5, "prefix");
        }
        (Err(frame::ParseError::UnknownFrame), Err(frame::IoReadError::Parse(frame::ParseError::UnknownFrame))) => {
            assert!(sync_consumed == rd.off, "unknown frame: async consumed a different number of bytes");
            kani::cover!(true, "unknown frame");
        }
        (Err(frame::ParseError::InvalidSessionId), Err(frame::IoReadError::Parse(frame::ParseError::InvalidSessionId))) => {
            kani::cover!(true, "invalid session id");
        }
        (Err(frame::ParseError::PayloadTooBig), Err(frame::IoReadError::Parse(frame::ParseError::PayloadTooBig))) => {}
        _ => assert!(false, "one-shot and async Frame readers disagree"),
    }
}

// @h props=C15,C01 tier=quick t=1800 sub=L2-stream-header
// @fn wtransport-proto/src/stream_header.rs StreamHeader::{read_async,read}
// @bound every byte string of length 0..=10 whose stream type is a 1-byte varint or 0x40 0x54 (WebTransport) followed by anything (so every session-id length)
// @oracle as c15_l2_frame
// @assume From<io::Error> stub; model source never errors
#[kani::proof]
#[kani::unwind(12)]
#[kani::stub(<wtransport_proto::bytes::IoReadError as std::convert::From<std::io::Error>>::from, crate::common::io_read_err_stub)]
fn c15_l2_stream_header() {
    let buf: [u8; 10] = kani::any();
    let len: usize = kani::any();
    kani::assume(len <= 10);
    kani::assume(buf[0] < 0x40 || (buf[0] == 0x40 && buf[1] == 0x54));
    let mut s: &[u8] = &buf[..len];
    let sync = StreamHeader::read(&mut s);
    let sync_consumed = len - s.len();
    let mut rd = ByteReader::<10> { data: buf, len, off: 0 };
    let asy = poll_once(StreamHeader::read_async(&mut rd)).unwrap();
    match (sync, asy) {
        (Ok(Some(hs)), Ok(ha)) => {
            assert!(core::mem::discriminant(&hs.kind()) == core::mem::discriminant(&ha.kind()));
            assert!(hs.session_id().map(|s| s.into_u64()) == ha.session_id().map(|s| s.into_u64()));
            assert!(sync_consumed == rd.off, "async header reader over/under-read");
            kani::cover!(rd.off == 10, "WT header with 8-byte id");
            kani::cover!(rd.off == 1, "1-byte header");
        }
        (Ok(None), Err(stream_header::IoReadError::IO(wbytes::IoReadError::ImmediateFin))) => assert!(len == 0),
        (Ok(None), Err(stream_header::IoReadError::IO(wbytes::IoReadError::UnexpectedFin))) => {
            assert!(len > 0 && rd.off == len);
            kani::cover!(len == 9, "prefix of a WT header");
        }
        (Err(stream_header::ParseError::UnknownStream), Err(stream_header::IoReadError::Parse(stream_header::ParseError::UnknownStream))) => {
            assert!(sync_consumed == rd.off);
            kani::cover!(true, "unknown stream");
        }
        (Err(stream_header::ParseError::InvalidSessionId), Err(stream_header::IoReadError::Parse(stream_header::ParseError::InvalidSessionId))) => {
            kani::cover!(true, "invalid session id");
        }
        _ => assert!(false, "one-shot and async StreamHeader readers disagree"),
    }
}

// NOTE: "typestate read_frame_async == read_frame on arbitrary bytes" (one query per role holding the one-shot reader,
// the async reader and its skip loop over symbolic input) ran out of 20-28 GB in every variant tried (symbolic length <= 5,
// concrete lengths 3/4/5, per-loop bounds). What is decided instead: Frame::read_async == Frame::read on arbitrary bytes
// (c15_l2_frame), the async typestate readers against the role table for all 49 two-frame sequences
// (c12_typestate_async_*), and the one-shot typestate readers against the same table (c12_typestate_*).

// @h props=C15,C12,C01 tier=quick t=1800 sub=L2-upgrade
// @fn wtransport-proto/src/stream.rs StreamUniRemoteQuic::{upgrade_async,upgrade}
// @bound inputs as c15_l2_stream_header (length 0..=10)
// @oracle upgrade_async == upgrade: same kind/session id, same error code (unknown type => H3_STREAM_CREATION_ERROR, invalid id => H3_ID_ERROR), same bytes consumed; prefix => ImmediateFin (empty) or H3_FRAME_ERROR
// @assume From<io::Error> stub; model source never errors
#[kani::proof]
#[kani::unwind(12)]
#[kani::stub(<wtransport_proto::bytes::IoReadError as std::convert::From<std::io::Error>>::from, crate::common::io_read_err_stub)]
fn c15_l2_upgrade() {
    let buf: [u8; 10] = kani::any();
    let len: usize = kani::any();
    kani::assume(len <= 10);
    kani::assume(buf[0] < 0x40 || (buf[0] == 0x40 && buf[1] == 0x54));
    let mut s: &[u8] = &buf[..len];
    let sync = Stream::accept_uni().upgrade(&mut s);
    let sync_consumed = len - s.len();
    let mut rd = ByteReader::<10> { data: buf, len, off: 0 };
    let asy = poll_once(Stream::accept_uni().upgrade_async(&mut rd)).unwrap();
    match (sync, asy) {
        (Ok(MaybeUpgradeH3::H3(hs)), Ok(ha)) => {
            assert!(core::mem::discriminant(&hs.kind()) == core::mem::discriminant(&ha.kind()));
            assert!(hs.session_id().map(|s| s.into_u64()) == ha.session_id().map(|s| s.into_u64()));
            assert!(sync_consumed == rd.off, "upgrade_async over/under-read the preamble");
            kani::cover!(rd.off == 10, "WT stream, 8-byte session id");
        }
        (Ok(MaybeUpgradeH3::Quic(_)), Err(stream::IoReadError::IO(wbytes::IoReadError::ImmediateFin))) => assert!(len == 0),
        (Ok(MaybeUpgradeH3::Quic(_)), Err(stream::IoReadError::H3(ErrorCode::Frame))) => {
            assert!(len > 0 && rd.off == len);
            kani::cover!(true, "FIN inside the preamble");
        }
        (Err(es), Err(stream::IoReadError::H3(ea))) => {
            assert!(es.to_code().into_inner() == ea.to_code().into_inner());
            kani::cover!(matches!(es, ErrorCode::StreamCreation), "unknown stream type");
            kani::cover!(matches!(es, ErrorCode::Id), "invalid session id");
        }
        _ => assert!(false, "upgrade and upgrade_async disagree"),
    }
}

// @h props=C15 tier=quick t=900 expect=fail sub=twin
// @fn wtransport-proto/src/frame.rs Frame::read_async
// @bound twin: claims the async reader never returns a frame; must be refuted
#[kani::proof]
#[kani::unwind(9)]
#[kani::stub(<wtransport_proto::bytes::IoReadError as std::convert::From<std::io::Error>>::from, crate::common::io_read_err_stub)]
fn c15_twin_must_fail() {
    let x: u8 = kani::any();
    let mut rd = ByteReader::<3> { data: [0x00, 0x01, x], len: 3, off: 0 };
    let r = poll_once(Frame::read_async(&mut rd)).unwrap();
    assert!(r.is_err(), "twin: wrong oracle");
    core::mem::forget(r);
}
