//! C13 — unknown and GREASE protocol elements are skipped whole, with no side effects (E1 part: frames on the
//! typestate readers, unknown stream types; settings / capsules / session stream are in the mirror crates,
//! the GREASE predicate at full width in E3)
use crate::c11::{kind_id, ref_frame, RefFrame};
use crate::common::*;
use wtransport_proto::bytes::{BufferReader, BytesReader};
use wtransport_proto::error::ErrorCode;
use wtransport_proto::frame::{self, Frame, FrameKind};
use wtransport_proto::stream::biremote::StreamBiRemoteH3;
use wtransport_proto::stream::bilocal::StreamBiLocalH3;
use wtransport_proto::stream::uniremote::{MaybeUpgradeH3, StreamUniRemoteH3};
use wtransport_proto::stream::Stream;
use wtransport_proto::stream_header::StreamKind;
use wtransport_proto::varint::VarInt;

pub fn control_stream() -> StreamUniRemoteH3 {
    let mut hdr: &[u8] = &[0x00];
    match Stream::accept_uni().upgrade(&mut hdr) {
        Ok(MaybeUpgradeH3::H3(s)) => s,
        _ => unreachable!(),
    }
}

/// an unknown-or-GREASE frame type with a 1- or 2-byte varint encoding (not DATA/HEADERS/SETTINGS/WT-signal)
fn any_unknown_type() -> (u64, bool) {
    let t: u16 = kani::any();
    kani::assume(t < 0x4000);
    kani::assume(t != 0x00 && t != 0x01 && t != 0x04 && t != 0x41);
    let grease = t >= 0x21 && (t - 0x21) % 0x1f == 0;
    (t as u64, grease)
}

// @h props=C13,C11 tier=quick t=900 sub=frame-read-unknown
// @fn wtransport-proto/src/frame.rs Frame::read FrameKind::parse
// @bound unknown/GREASE type = every value < 2^30 (1-, 2- and 4-byte varints) except DATA/HEADERS/SETTINGS/WT, or the 8-byte type 2^62-1; length 0..=3, arbitrary payload, one trailing byte
// @oracle an unknown frame is reported (UnknownFrame) only after type, length AND payload have been consumed: consumed == |U| exactly; a GREASE frame is returned whole with consumed == |U|
#[kani::proof]
#[kani::unwind(10)]
fn c13_frame_read_unknown_consumed() {
    let big: bool = kani::any();
    let t: u64 = if big {
        VMAX
    } else {
        let t: u32 = kani::any();
        kani::assume(t < (1 << 30));
        kani::assume(t != 0x00 && t != 0x01 && t != 0x04 && t != 0x41);
        t as u64
    };
    let grease = t >= 0x21 && (t - 0x21) % 0x1f == 0;
    let l: usize = kani::any();
    kani::assume(l <= 3);
    let up: [u8; 3] = kani::any();
    let mut s = [0u8; 13];
    let mut n = ref_varint_put(t, &mut s);
    s[n] = l as u8;
    n += 1;
    let mut i = 0;
    while i < l {
        s[n + i] = up[i];
        i += 1;
    }
    let ulen = n + l;
    s[ulen] = kani::any();
    let mut rd: &[u8] = &s[..ulen + 1];
    let got = Frame::read(&mut rd);
    let consumed = ulen + 1 - rd.len();
    match got {
        Err(frame::ParseError::UnknownFrame) => {
            assert!(!grease, "GREASE type reported as unknown");
            assert!(consumed == ulen, "unknown frame reported before its length and payload were consumed");
            kani::cover!(l == 3 && n == 5, "4-byte unknown type, 3-byte payload");
            kani::cover!(big, "8-byte unknown type");
        }
        Ok(Some(f)) => {
            assert!(grease && kind_id(f.kind()) == t, "unknown type returned as a frame");
            assert!(f.payload().len() == l && eq_prefix(f.payload(), &up, l) && consumed == ulen);
            kani::cover!(n == 5, "4-byte GREASE type");
        }
        _ => assert!(false, "complete unknown/GREASE frame produced need-more or another error"),
    }
}

/// expected reaction of each role to the *known* frame that follows the skipped one (RFC 9114 §7.2, WT draft §4)
#[derive(Clone, Copy)]
enum Role {
    Control,
    BiRemote,
    BiLocal,
}

/// S = U || F2: U = unknown non-GREASE frame (1/2-byte type, length <= 3, arbitrary payload, so payloads that
/// look like frames are included), F2 from {DATA, HEADERS, SETTINGS, WT(valid id), GREASE} with one payload byte,
/// or a proper prefix of it. Reading S must give exactly what the role's table says for F2 alone.
macro_rules! skip_then_known {
    ($name:ident, $mk:expr, $role:expr) => {
        #[kani::proof]
        #[kani::unwind(11)]
        fn $name() {
            let (t, grease) = any_unknown_type();
            kani::assume(!grease);
            let l: usize = kani::any();
            kani::assume(l <= 3);
            let up: [u8; 3] = kani::any();
            let mut s = [0u8; 10];
            let mut n = ref_varint_put(t, &mut s);
            s[n] = l as u8;
            n += 1;
            let mut i = 0;
            while i < l {
                s[n + i] = up[i];
                i += 1;
            }
            let ulen = n + l;
            let sel: u8 = kani::any();
            kani::assume(sel < 5);
            let pb: u8 = kani::any();
            let f2: [u8; 3] = match sel {
                0 => [0x00, 0x01, pb],
                1 => [0x01, 0x01, pb],
                2 => [0x04, 0x01, pb],
                3 => [0x40, 0x41, 0x04],
                _ => [0x21, 0x01, pb],
            };
            let cut: usize = kani::any();
            kani::assume(cut <= 3);
            let mut i = 0;
            while i < cut {
                s[ulen + i] = f2[i];
                i += 1;
            }
            let total = ulen + cut;
            let mut st = $mk;
            let mut rd: &[u8] = &s[..total];
            let got = st.read_frame(&mut rd);
            if cut < 3 {
                assert!(matches!(got, Ok(None)), "incomplete frame after a skipped one did not ask for more data");
                kani::cover!(cut == 2, "incomplete follower");
                return;
            }
            // role table for the follower (first known frame on the stream)
            let role: Role = $role;
            let expect: Result<(), u64> = match (role, sel) {
                (Role::Control, 0) | (Role::Control, 1) | (Role::Control, 3) => Err(0x105),
                (Role::Control, _) => Ok(()),
                (Role::BiRemote, 2) => Err(0x105),
                (Role::BiRemote, _) => Ok(()),
                (Role::BiLocal, 2) | (Role::BiLocal, 3) => Err(0x105),
                (Role::BiLocal, _) => Ok(()),
            };
            match (got, expect) {
                (Ok(Some(f)), Ok(())) => {
                    let id = [0u64, 1, 4, 0x41, 0x21][sel as usize];
                    assert!(kind_id(f.kind()) == id, "frame after a skipped frame mis-identified");
                    if sel != 3 {
                        assert!(f.payload().len() == 1 && f.payload()[0] == pb, "payload of the following frame altered");
                    } else {
                        assert!(f.session_id().unwrap().into_u64() == 4);
                    }
                    assert!(rd.is_empty(), "input not consumed whole");
                    kani::cover!(l == 3 && t >= 0x40, "2-byte unknown type with 3-byte payload skipped");
                    kani::cover!(l == 2 && up[0] == 0x04 && up[1] == 0x00, "skipped payload that looks like a SETTINGS frame");
                }
                (Err(e), Err(code)) => {
                    assert!(e.to_code().into_inner() == code, "wrong error code after a skipped frame");
                    kani::cover!(true, "follower refused by the role table");
                }
                _ => assert!(false, "length/payload of an unknown frame were interpreted (outcome differs from the exchange without it)"),
            }
        }
    };
}

// @h props=C13 tier=quick t=1800 sub=frame-skip-control
// @fn wtransport-proto/src/stream.rs StreamUniRemoteH3::{read_frame,validate_frame}; wtransport-proto/src/frame.rs Frame::read
// @bound control stream; one unknown non-GREASE frame (every 1-/2-byte type, length 0..=3, arbitrary payload incl. frame look-alikes) followed by DATA/HEADERS/SETTINGS/WT/GREASE (one payload byte) or any proper prefix of it
// @oracle reaction == role table applied to the follower alone (RFC 9114 §7.2.8/§9: unknown frames are ignored); follower's kind/payload exact; all input consumed
// @outside more than one inserted frame per read (each read starts the same loop again); 4/8-byte types here (c13_frame_read_unknown_consumed covers the decoder)
skip_then_known!(c13_skip_unknown_control, control_stream(), Role::Control);

// @h props=C13 tier=quick t=1800 sub=frame-skip-biremote
// @fn wtransport-proto/src/stream.rs StreamBiRemoteH3::{read_frame,validate_frame}; wtransport-proto/src/frame.rs Frame::read
// @bound peer-opened request stream; as c13_skip_unknown_control
// @oracle as c13_skip_unknown_control
skip_then_known!(c13_skip_unknown_biremote, Stream::accept_bi().upgrade(), Role::BiRemote);

// @h props=C13 tier=quick t=1800 sub=frame-skip-bilocal
// @fn wtransport-proto/src/stream.rs StreamBiLocalH3::{read_frame,validate_frame}; wtransport-proto/src/frame.rs Frame::read
// @bound locally-opened request stream; as c13_skip_unknown_control
// @oracle as c13_skip_unknown_control
skip_then_known!(c13_skip_unknown_bilocal, Stream::open_bi().upgrade(), Role::BiLocal);

// @h props=C13,C15 tier=quick t=900 sub=frame-skip-prefix
// @fn wtransport-proto/src/stream.rs StreamUniRemoteH3::read_frame_from_buffer; wtransport-proto/src/frame.rs Frame::{read,read_from_buffer}
// @bound control stream, buffered reader; every proper prefix of an unknown (non-GREASE) frame with 1/2-byte type and length <= 3
// @oracle a proper prefix of a to-be-skipped frame asks for more data (Ok(None)) and leaves the reader offset where it was; never an error, never a frame
#[kani::proof]
#[kani::unwind(10)]
fn c13_unknown_prefix_needs_more() {
    let (t, grease) = any_unknown_type();
    kani::assume(!grease);
    let l: usize = kani::any();
    kani::assume(l <= 3);
    let up: [u8; 3] = kani::any();
    let mut s = [0u8; 6];
    let mut n = ref_varint_put(t, &mut s);
    s[n] = l as u8;
    n += 1;
    let mut i = 0;
    while i < l {
        s[n + i] = up[i];
        i += 1;
    }
    let ulen = n + l;
    let cut: usize = kani::any();
    kani::assume(cut < ulen);
    let mut st = control_stream();
    let mut r = BufferReader::new(&s[..cut]);
    let got = st.read_frame_from_buffer(&mut r);
    assert!(matches!(got, Ok(None)), "prefix of an unknown frame produced a frame or an error");
    assert!(r.offset() == 0, "buffered reader advanced on incomplete input");
    kani::cover!(cut + 1 == ulen && l == 3, "one byte short of a 3-byte payload");
    kani::cover!(cut == 1 && t >= 0x40, "cut inside the type");
}

// @h props=C13,C12 tier=quick t=600 sub=unknown-stream-type
// @fn wtransport-proto/src/stream.rs StreamUniRemoteQuic::upgrade; wtransport-proto/src/stream_header.rs StreamHeader::read StreamKind::parse
// @bound every stream type with a 1-, 2- or 4-byte varint encoding, followed by up to 2 arbitrary bytes
// @oracle GREASE type => accepted as Exercise stream (content ignorable); unknown non-GREASE => H3_STREAM_CREATION_ERROR for that stream only (no panic, no other code); known types upgrade
// @outside what the driver does with that per-stream error (Worker::accept_uni: outside this family, see DESIGN D6)
#[kani::proof]
#[kani::unwind(8)]
fn c13_unknown_stream_type() {
    let t: u32 = kani::any();
    kani::assume(t < (1 << 30));
    let tail: [u8; 2] = kani::any();
    let mut s = [0u8; 6];
    let n = ref_varint_put(t as u64, &mut s);
    s[n] = tail[0];
    s[n + 1] = tail[1];
    let grease = t >= 0x21 && (t - 0x21) % 0x1f == 0;
    let known = t == 0 || t == 2 || t == 3 || t == 0x54;
    let mut rd: &[u8] = &s[..n];
    match Stream::accept_uni().upgrade(&mut rd) {
        Ok(MaybeUpgradeH3::H3(h)) => {
            assert!(grease || (known && t != 0x54), "unknown stream type accepted");
            if grease {
                assert!(matches!(h.kind(), StreamKind::Exercise(id) if id.into_inner() == t as u64));
                kani::cover!(n == 4, "4-byte GREASE stream type");
            }
        }
        Ok(MaybeUpgradeH3::Quic(_)) => assert!(t == 0x54, "complete header reported incomplete"),
        Err(e) => {
            assert!(!grease && !known, "reserved/known stream type refused");
            assert!(matches!(e, ErrorCode::StreamCreation), "unknown stream type not mapped to H3_STREAM_CREATION_ERROR");
            kani::cover!(n == 2, "2-byte unknown stream type");
        }
    }
}

// @h props=C13 tier=quick t=900 expect=fail sub=twin
// @fn wtransport-proto/src/stream.rs StreamUniRemoteH3::read_frame
// @bound twin: claims a GREASE frame is never delivered; must be refuted
#[kani::proof]
#[kani::unwind(8)]
fn c13_twin_must_fail() {
    let b: [u8; 3] = kani::any();
    let mut st = control_stream();
    let mut rd: &[u8] = &[0x21, 0x01, b[0]];
    assert!(!matches!(st.read_frame(&mut rd), Ok(Some(_))), "twin: wrong oracle");
}

// NOTE: an ASYNC twin of `skip_then_known` (unknown frame, then a follower, through `read_frame_async`) was tried in
// four variants (symbolic / concrete type and follower, per-loop bounds, global unwind 3) and ran out of 20 GB each
// time: two iterations of the async skip loop inside ONE future do not fit, while two separate calls with one iteration
// each do (c12_typestate_async_*). "An unknown frame leaves no trace in the ASYNC typestate" is therefore outside the
// claim (seeded mutant C15b is missed); the one-shot readers are covered above.
