//! C13 — unknown and GREASE protocol elements are skipped whole, with no side effects (E1 part: frames on the
//! typestate readers, unknown stream types; settings / capsules / session stream are in the mirror crates,
//! the GREASE predicate at full width in E3)
use crate::c11::{kind_id, ref_frame, RefFrame};
use crate::common::*;
use wtransport_proto::bytes::{BufferReader, BytesReader};
use wtransport_proto::error::ErrorCode;
use wtransport_proto::frame::{self, Frame, FrameKind};
use wtransport_proto::stream::biremote::StreamBiRemoteH3;
use wtransport_proto::stream::bilocal::StreamBiLocalH3;
use wtransport_proto::stream::uniremote::{MaybeUpgradeH3, StreamUniRemoteH3};
use wtransport_proto::stream::Stream;
use wtransport_proto::stream_header::StreamKind;
use wtransport_proto::varint::VarInt;

pub fn control_stream() -> StreamUniRemoteH3 {
    let mut hdr: &[u8] = &[0x00];
    match Stream::accept_uni().upgrade(&mut hdr) {
        Ok(MaybeUpgradeH3::H3(s)) => s,
        _ => unreachable!(),
    }
}

/// an unknown-or-GREASE frame type with a 1- or 2-byte varint encoding (not DATA/HEADERS/SETTINGS/WT-signal)
fn any_unknown_type() -> (u64, bool) {
    let t: u16 = kani::any();
    kani::assume(t < 0x4000);
    kani::assume(t != 0x00 && t != 0x01 && t != 0x04 && t != 0x41);
    let grease = t >= 0x21 && (t - 0x21) % 0x1f == 0;
    (t as u64, grease)
}

#[derive(Clone, Copy, PartialEq, Eq)]
enum Out {
    None,
    Err(u64),
    Frame { type_id: u64, p0: u8, p1: u8, plen: usize, consumed: usize },
}

fn summarize(r: Result<Option<Frame<'_>>, ErrorCode>, consumed: usize) -> Out {
    match r {
        Ok(None) => Out::None,
        Err(e) => Out::Err(e.to_code().into_inner()),
        Ok(Some(f)) => {
            let p = f.payload();
            Out::Frame {
                type_id: kind_id(f.kind()),
                plen: p.len(),
                p0: if p.len() > 0 { p[0] } else { 0 },
                p1: if p.len() > 1 { p[1] } else { 0 },
                consumed,
            }
        }
    }
}

/// S = U || rest, U = (unknown/GREASE type t, length l <= 3, arbitrary payload), rest = arbitrary bytes.
/// Reading S on a fresh stream must give: [GREASE: the GREASE frame itself, then] exactly what reading `rest`
/// on a fresh stream gives, with |U| more bytes consumed.
macro_rules! skip_whole {
    ($name:ident, $mk:expr, $R:literal) => {
        #[kani::proof]
        #[kani::unwind(12)]
        fn $name() {
            let (t, grease) = any_unknown_type();
            let l: usize = kani::any();
            kani::assume(l <= 3);
            let up: [u8; 3] = kani::any();
            let rest: [u8; $R] = kani::any();
            let rlen: usize = kani::any();
            kani::assume(rlen <= $R);
            let mut s = [0u8; 6 + $R];
            let mut n = ref_varint_put(t, &mut s);
            s[n] = l as u8;
            n += 1;
            let mut i = 0;
            while i < l {
                s[n + i] = up[i];
                i += 1;
            }
            let ulen = n + l;
            let mut i = 0;
            while i < rlen {
                s[ulen + i] = rest[i];
                i += 1;
            }
            let total = ulen + rlen;

            // reference run: `rest` alone on a fresh stream
            let mut a = $mk;
            let mut ra: &[u8] = &rest[..rlen];
            let exp = summarize(a.read_frame(&mut ra), rlen - ra.len());

            // run under test: U || rest
            let mut b = $mk;
            let mut rb: &[u8] = &s[..total];
            let mut got = b.read_frame(&mut rb);
            if grease {
                // a GREASE frame is handed to the caller (who ignores it) as a whole, then the rest follows
                match got {
                    Ok(Some(g)) => {
                        assert!(kind_id(g.kind()) == t, "GREASE frame not delivered as such");
                        assert!(g.payload().len() == l && eq_prefix(g.payload(), &up, l), "GREASE payload not consumed whole");
                        assert!(total - rb.len() == ulen, "GREASE frame not consumed whole");
                    }
                    _ => assert!(false, "GREASE frame refused"),
                }
                got = b.read_frame(&mut rb);
                kani::cover!(true, "GREASE type");
            }
            let out = summarize(got, total - rb.len());
            match (exp, out) {
                (Out::None, Out::None) => {
                    kani::cover!(rlen > 0, "incomplete frame after the unknown one");
                }
                (Out::Err(e1), Out::Err(e2)) => {
                    assert!(e1 == e2, "unknown frame changed the error of the following frame");
                    kani::cover!(!grease, "error after unknown frame");
                }
                (Out::Frame { type_id, p0, p1, plen, consumed }, Out::Frame { type_id: t2, p0: q0, p1: q1, plen: l2, consumed: c2 }) => {
                    assert!(type_id == t2 && plen == l2 && p0 == q0 && p1 == q1, "frame after an unknown frame was mis-read");
                    assert!(c2 == consumed + ulen, "unknown frame not consumed whole");
                    kani::cover!(!grease && l == 3, "unknown non-GREASE frame with 3-byte payload skipped");
                    kani::cover!(!grease && t >= 0x40, "2-byte unknown type skipped");
                }
                _ => assert!(false, "length/payload of an unknown frame were interpreted (outcome differs from the exchange without it)"),
            }
        }
    };
}

// @h props=C13 tier=quick t=1800 sub=frame-skip-control
// @fn wtransport-proto/src/stream.rs StreamUniRemoteH3::{read_frame,validate_frame}; wtransport-proto/src/frame.rs Frame::read FrameKind::parse
// @bound control stream; unknown/GREASE type = every 1- and 2-byte varint value except DATA/HEADERS/SETTINGS/WT; length 0..=3 with arbitrary payload (incl. payloads that look like frames); followed by every byte string of length 0..=4
// @oracle metamorphic: read(U || rest) == read(rest) (kind, payload, error code), |U| more bytes consumed; a GREASE frame is delivered whole first
// @outside unknown types with 4/8-byte encodings (thorough); payloads > 3 bytes
skip_whole!(c13_skip_unknown_control, control_stream(), 4);

// @h props=C13 tier=quick t=1800 sub=frame-skip-biremote
// @fn wtransport-proto/src/stream.rs StreamBiRemoteH3::{read_frame,validate_frame}; wtransport-proto/src/frame.rs Frame::read
// @bound peer-opened request stream; as c13_skip_unknown_control
// @oracle as c13_skip_unknown_control
skip_whole!(c13_skip_unknown_biremote, Stream::accept_bi().upgrade(), 4);

// @h props=C13 tier=quick t=1800 sub=frame-skip-bilocal
// @fn wtransport-proto/src/stream.rs StreamBiLocalH3::{read_frame,validate_frame}; wtransport-proto/src/frame.rs Frame::read
// @bound locally-opened request stream; as c13_skip_unknown_control
// @oracle as c13_skip_unknown_control
skip_whole!(c13_skip_unknown_bilocal, Stream::open_bi().upgrade(), 4);

// @h props=C13,C15 tier=quick t=900 sub=frame-skip-prefix
// @fn wtransport-proto/src/stream.rs StreamUniRemoteH3::read_frame_from_buffer; wtransport-proto/src/frame.rs Frame::{read,read_from_buffer}
// @bound control stream, buffered reader; every proper prefix of an unknown (non-GREASE) frame with 1/2-byte type and length <= 3
// @oracle a proper prefix of a to-be-skipped frame asks for more data (Ok(None)) and leaves the reader offset where it was; never an error, never a frame
#[kani::proof]
#[kani::unwind(10)]
fn c13_unknown_prefix_needs_more() {
    let (t, grease) = any_unknown_type();
    kani::assume(!grease);
    let l: usize = kani::any();
    kani::assume(l <= 3);
    let up: [u8; 3] = kani::any();
    let mut s = [0u8; 6];
    let mut n = ref_varint_put(t, &mut s);
    s[n] = l as u8;
    n += 1;
    let mut i = 0;
    while i < l {
        s[n + i] = up[i];
        i += 1;
    }
    let ulen = n + l;
    let cut: usize = kani::any();
    kani::assume(cut < ulen);
    let mut st = control_stream();
    let mut r = BufferReader::new(&s[..cut]);
    let got = st.read_frame_from_buffer(&mut r);
    assert!(matches!(got, Ok(None)), "prefix of an unknown frame produced a frame or an error");
    assert!(r.offset() == 0, "buffered reader advanced on incomplete input");
    kani::cover!(cut + 1 == ulen && l == 3, "one byte short of a 3-byte payload");
    kani::cover!(cut == 1 && t >= 0x40, "cut inside the type");
}

// @h props=C13,C12 tier=quick t=600 sub=unknown-stream-type
// @fn wtransport-proto/src/stream.rs StreamUniRemoteQuic::upgrade; wtransport-proto/src/stream_header.rs StreamHeader::read StreamKind::parse
// @bound every stream type with a 1-, 2- or 4-byte varint encoding, followed by up to 2 arbitrary bytes
// @oracle GREASE type => accepted as Exercise stream (content ignorable); unknown non-GREASE => H3_STREAM_CREATION_ERROR for that stream only (no panic, no other code); known types upgrade
// @outside what the driver does with that per-stream error (Worker::accept_uni: outside this family, see DESIGN D6)
#[kani::proof]
#[kani::unwind(8)]
fn c13_unknown_stream_type() {
    let t: u32 = kani::any();
    kani::assume(t < (1 << 30));
    let tail: [u8; 2] = kani::any();
    let mut s = [0u8; 6];
    let n = ref_varint_put(t as u64, &mut s);
    s[n] = tail[0];
    s[n + 1] = tail[1];
    let grease = t >= 0x21 && (t - 0x21) % 0x1f == 0;
    let known = t == 0 || t == 2 || t == 3 || t == 0x54;
    let mut rd: &[u8] = &s[..n];
    match Stream::accept_uni().upgrade(&mut rd) {
        Ok(MaybeUpgradeH3::H3(h)) => {
            assert!(grease || (known && t != 0x54), "unknown stream type accepted");
            if grease {
                assert!(matches!(h.kind(), StreamKind::Exercise(id) if id.into_inner() == t as u64));
                kani::cover!(n == 4, "4-byte GREASE stream type");
            }
        }
        Ok(MaybeUpgradeH3::Quic(_)) => assert!(t == 0x54, "complete header reported incomplete"),
        Err(e) => {
            assert!(!grease && !known, "reserved/known stream type refused");
            assert!(matches!(e, ErrorCode::StreamCreation), "unknown stream type not mapped to H3_STREAM_CREATION_ERROR");
            kani::cover!(n == 2, "2-byte unknown stream type");
        }
    }
}

// @h props=C13 tier=quick t=120 expect=fail sub=twin
// @fn wtransport-proto/src/stream.rs StreamUniRemoteH3::read_frame
// @bound twin: claims a GREASE frame is never delivered; must be refuted
#[kani::proof]
#[kani::unwind(8)]
fn c13_twin_must_fail() {
    let b: [u8; 3] = kani::any();
    let mut st = control_stream();
    let mut rd: &[u8] = &[0x21, 0x01, b[0]];
    assert!(!matches!(st.read_frame(&mut rd), Ok(Some(_))), "twin: wrong oracle");
}
