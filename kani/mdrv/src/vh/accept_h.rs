//! Hand-off of peer-opened streams and datagrams (driver/mod.rs, sliced): nothing pulled from the connection or from a
//! ready-queue is lost when the awaiting future is dropped at a suspension point (select! in the worker loop, a
//! cancelled `Connection::accept_*` in the application), every pulled item goes to exactly one place, and only
//! streams of the asked-for session are returned (C08; C17 foreign-session clause).
use super::*;
use crate::accept::*;
use crate::datagram::Datagram;
use crate::driver::DriverError;
use crate::SessionId;
use crate::StreamId;
use crate::VarInt;
use std::pin::Pin;
use tokio::sync::mpsc::{ChanState, Receiver, RecvCtl, Sender};
use tokio::sync::Mutex;
use wtransport_proto::error::ErrorCode;

fn poll_pin<F: Future + ?Sized>(fut: Pin<&mut F>) -> Poll<F::Output> {
    let mut cx = Context::from_waker(Waker::noop());
    fut.poll(&mut cx)
}

fn sid(k: u8) -> SessionId {
    SessionId::try_from_session_stream(StreamId::new(VarInt::from_u32(4 * k as u32))).unwrap()
}

fn any_upto(n: usize) -> usize {
    let v: usize = kani::any();
    kani::assume(v <= n);
    v
}

/// the rest of the system moves between two polls of the future under test: the application drains a queue (a slot
/// becomes free), the peer opens another stream / sends a datagram, the application drops its receivers, the
/// connection dies
fn env_step(conn: &ModelConnection, h3: &ChanState, wt: &ChanState, which: u8) {
    if kani::any() {
        h3.free.set(h3.free.get() + 1);
    }
    if kani::any() {
        wt.free.set(wt.free.get() + 1);
    }
    if kani::any() {
        wt.closed.set(true);
    }
    if kani::any() {
        let r = match which {
            0 => &conn.uni_ready,
            1 => &conn.bi_ready,
            _ => &conn.dgram_ready,
        };
        r.set(r.get() + 1);
    }
    if kani::any() {
        conn.closed.set(true);
    }
}

/// body shared by the cancellation harnesses of accept_uni / accept_bi (the spawned task is not run here)
macro_rules! worker_cancel_body {
    ($accept:ident, $ready:ident, $pulled:ident, $which:literal, $h3ty:ty, $wtty:ty) => {{
        let conn = ModelConnection::new(StreamScript { outcome: 1, session: sid(1), suspends: 0 });
        conn.$ready.set(any_upto(2));
        conn.closed.set(kani::any());
        let h3 = ChanState::new(any_upto(2), false);
        let wt = ChanState::new(any_upto(2), kani::any());
        let h3_tx: Sender<$h3ty> = Sender::model(&h3);
        let wt_tx: Sender<$wtty> = Sender::model(&wt);
        let drop_after: u8 = kani::any();
        kani::assume(drop_after <= 3);
        let mut done = None;
        {
            let mut fut = std::pin::pin!(WorkerA::$accept(&conn, &h3_tx, &wt_tx));
            let mut i = 0;
            while i < 3 && i < drop_after {
                match poll_pin(fut.as_mut()) {
                    Poll::Ready(r) => {
                        done = Some(r);
                        break;
                    }
                    Poll::Pending => env_step(&conn, &h3, &wt, $which),
                }
                i += 1;
            }
        }
        let spawned = tokio::model_spawned();
        assert!(conn.$pulled.get() == spawned, "a stream pulled from the connection was not handed to a task");
        match &done {
            Some(Ok(())) => {
                assert!(spawned == 1, "Ok without exactly one task");
                assert!(h3.reserved.get() == 1 && wt.reserved.get() == 1, "the task does not own one slot of each queue");
            }
            Some(Err(DriverError::NotConnected)) => {
                assert!(spawned == 0);
                assert!(wt.closed.get() || conn.closed.get(), "NotConnected although nothing is closed");
                assert!(h3.reserved.get() == 0 && wt.reserved.get() == 0, "failed accept keeps a queue slot");
            }
            Some(Err(_)) => panic!("unexpected error"),
            None => {
                assert!(spawned == 0);
                assert!(h3.reserved.get() == 0 && wt.reserved.get() == 0, "cancelled accept keeps a queue slot");
            }
        }
        assert!(h3.sent.get() == 0 && wt.sent.get() == 0);
        kani::cover!(done.is_none() && drop_after == 2 && h3.free.get() == 1, "cancelled while waiting for the second slot");
        kani::cover!(done.is_none() && drop_after == 3 && conn.$ready.get() == 0 && wt.reserved.get() == 0, "cancelled while waiting for a stream");
        kani::cover!(matches!(done, Some(Ok(()))) && drop_after == 3, "accepted on the third poll");
        kani::cover!(matches!(done, Some(Err(_))), "not connected");
    }};
}

/// body shared by the routing harnesses: everything is ready, the accept completes in one poll and the model of
/// tokio::spawn runs the task to completion
macro_rules! worker_task_body {
    ($accept:ident, $ready:ident, $outcomes:literal, $h3ty:ty, $wtty:ty) => {{
        tokio::model_run_tasks(true);
        let outcome: u8 = kani::any();
        kani::assume(outcome < $outcomes);
        let suspends: u8 = kani::any();
        kani::assume(suspends <= 1);
        let conn = ModelConnection::new(StreamScript { outcome, session: sid(1), suspends });
        conn.$ready.set(1);
        let h3 = ChanState::new(1, false);
        let wt = ChanState::new(1, false);
        let h3_tx: Sender<$h3ty> = Sender::model(&h3);
        let wt_tx: Sender<$wtty> = Sender::model(&wt);
        let r = poll_once(WorkerA::$accept(&conn, &h3_tx, &wt_tx));
        assert!(matches!(r, Some(Ok(()))), "accept did not complete although slots and a stream were ready");
        assert!(tokio::model_spawned() == 1 && tokio::model_completed() == 1, "task did not run to completion");
        assert!(h3.reserved.get() == 0 && wt.reserved.get() == 0, "task leaks a queue slot");
        assert!(h3.free.get() + h3.sent.get() == 1 && wt.free.get() + wt.sent.get() == 1, "slot accounting broken");
        match outcome {
            1 => assert!(wt.sent.get() == 1 && h3.sent.get() == 0, "WebTransport stream not delivered exactly once"),
            3 => assert!(wt.sent.get() == 0 && h3.sent.get() == 0, "broken stream delivered"),
            _ => assert!(h3.sent.get() == 1 && wt.sent.get() == 0, "H3 stream / H3 error not reported on the h3 queue only"),
        }
        kani::cover!(outcome == 1 && suspends == 1, "WebTransport stream after a suspension");
        kani::cover!(outcome == 3, "I/O error");
        kani::cover!(outcome == $outcomes - 1 && suspends == 1, "last outcome, with suspensions");
    }};
}

// @h props=C08 tier=quick t=1800 sub=worker-accept-cancel
// @fn wtransport/src/driver/mod.rs worker::Worker::accept_uni (sliced)
// @bound at most 3 polls of the accept future with an arbitrary environment step between them (slots freed, streams arriving, wt queue or connection closing), the future dropped after an arbitrary number of polls - what select! does to the losing branches; queue slots 0..2 per queue, 0..2 streams ready initially; unwind 6
// @oracle every stream pulled from the connection has been handed to a spawned task (none is held by a dropped future); Ok iff exactly one stream was pulled and one task spawned that owns one slot of each queue; a cancelled or failed accept holds no slot and has queued nothing
// @assume MODEL ModelConnection (quinn's accept futures remove a stream only in the poll that returns it - quinn's documented cancel safety), MODEL tokio mpsc sender half as a slot counter, MODEL tokio::spawn (counts; task not run in this harness), MODEL stream types
// @outside the tokio scheduler and real channel wake-ups; more than 3 polls; the h3 receiver being dropped (the code itself expect()s it is not)
#[kani::proof]
#[kani::unwind(6)]
fn a_worker_accept_uni_cancel() {
    worker_cancel_body!(accept_uni, uni_ready, uni_pulled, 0, Result<StreamUniRemoteH3, DriverError>, StreamUniRemoteWT)
}

// @h props=C08 tier=quick t=1800 sub=worker-accept-cancel
// @fn wtransport/src/driver/mod.rs worker::Worker::accept_bi (sliced)
// @bound as a_worker_accept_uni_cancel
// @oracle as a_worker_accept_uni_cancel
// @assume as a_worker_accept_uni_cancel
// @outside as a_worker_accept_uni_cancel
#[kani::proof]
#[kani::unwind(6)]
fn a_worker_accept_bi_cancel() {
    worker_cancel_body!(accept_bi, bi_ready, bi_pulled, 1, Result<(StreamBiRemoteH3, wtransport_proto::frame::Frame<'static>), DriverError>, StreamBiRemoteWT)
}

// @h props=C08 tier=quick t=1800 sub=worker-accept-task
// @fn wtransport/src/driver/mod.rs worker::Worker::accept_uni (sliced): the task it spawns
// @bound one slot free in each queue and one stream ready (the accept completes in one poll); the stream turns out control-like / WebTransport / H3 error / I/O error after 0..1 suspensions; unwind 6
// @oracle the task delivers the stream to exactly one queue (WebTransport -> wt queue, anything else -> h3 queue, H3 error -> one Err on the h3 queue, I/O error -> nothing) and gives the other slot back: free + sent == 1 on both queues
// @assume MODEL tokio::spawn runs the task eagerly to completion (one legal schedule), MODEL mpsc slot counters, MODEL stream types (the header read is a scripted outcome)
// @outside StreamHeader parsing itself (C12/C13/C15)
#[kani::proof]
#[kani::unwind(6)]
fn a_worker_accept_uni_task() {
    worker_task_body!(accept_uni, uni_ready, 4, Result<StreamUniRemoteH3, DriverError>, StreamUniRemoteWT)
}

// @h props=C08 tier=quick t=1800 sub=worker-accept-task
// @fn wtransport/src/driver/mod.rs worker::Worker::accept_bi (sliced): the task it spawns
// @bound as a_worker_accept_uni_task; first frame HEADERS-like (DATA stand-in) / WebTransport signal / H3 error / I/O error / one GREASE frame and then a frame
// @oracle as a_worker_accept_uni_task; a leading GREASE frame does not change the routing
// @assume as a_worker_accept_uni_task
// @outside frame parsing itself (C12/C13/C15)
// @unwindset accept_bi:4
#[kani::proof]
#[kani::unwind(6)]
fn a_worker_accept_bi_task() {
    worker_task_body!(accept_bi, bi_ready, 5, Result<(StreamBiRemoteH3, wtransport_proto::frame::Frame<'static>), DriverError>, StreamBiRemoteWT)
}

// @h props=C08,C03 tier=quick t=1800 sub=worker-accept-datagram
// @fn wtransport/src/driver/mod.rs worker::Worker::accept_datagram (sliced); wtransport/src/datagram.rs Datagram::read (re-hosted)
// @bound at most 3 polls with arbitrary environment steps, dropped after an arbitrary number of polls; queue slots 0..2; datagram bytes: a valid one for session 0 or one with a truncated quarter-stream id; unwind 6
// @oracle a datagram pulled from the connection is either queued (exactly once) or reported as the protocol error Datagram::read returns; a cancelled or failed branch has pulled nothing and holds no slot
// @assume MODEL ModelConnection.read_datagram (cancel safe as quinn documents), MODEL mpsc slot counter
// @outside payload contents (Datagram::read is decided in C03 / C15 harnesses)
#[kani::proof]
#[kani::unwind(6)]
fn a_worker_accept_datagram() {
    let mut conn = ModelConnection::new(StreamScript { outcome: 0, session: sid(0), suspends: 0 });
    let bad: bool = kani::any();
    if bad {
        conn.dgram = &[0x40];
    }
    conn.dgram_ready.set(any_upto(2));
    conn.closed.set(kani::any());
    let q = ChanState::new(any_upto(2), kani::any());
    let unused = ChanState::new(0, false);
    let tx: Sender<Datagram> = Sender::model(&q);
    let drop_after: u8 = kani::any();
    kani::assume(drop_after <= 3);
    let mut done = None;
    {
        let mut fut = std::pin::pin!(WorkerA::accept_datagram(&conn, &tx));
        let mut i = 0;
        while i < 3 && i < drop_after {
            match poll_pin(fut.as_mut()) {
                Poll::Ready(r) => {
                    done = Some(r);
                    break;
                }
                Poll::Pending => env_step(&conn, &unused, &q, 2),
            }
            i += 1;
        }
    }
    assert!(q.reserved.get() == 0, "a slot stays reserved");
    match &done {
        Some(Ok(())) => assert!(conn.dgram_pulled.get() == 1 && q.sent.get() == 1 && !bad, "Ok without exactly one queued datagram"),
        Some(Err(DriverError::Proto(code))) => {
            assert!(bad && conn.dgram_pulled.get() == 1 && q.sent.get() == 0);
            assert!(matches!(code, ErrorCode::Datagram), "malformed datagram must be H3_DATAGRAM_ERROR");
        }
        Some(Err(DriverError::NotConnected)) => {
            assert!(conn.dgram_pulled.get() == 0 && q.sent.get() == 0);
            assert!(q.closed.get() || conn.closed.get(), "NotConnected although nothing is closed");
        }
        Some(Err(_)) => panic!("unexpected error"),
        None => assert!(conn.dgram_pulled.get() == 0 && q.sent.get() == 0, "cancelled branch consumed a datagram"),
    }
    kani::cover!(matches!(done, Some(Ok(()))) && drop_after == 3, "queued on the third poll");
    kani::cover!(matches!(done, Some(Err(DriverError::Proto(_)))), "malformed datagram");
    kani::cover!(done.is_none() && drop_after == 2, "cancelled after two polls");
}

/// `Bytes::drop` for statically backed buffers (bytes: `static_drop` does nothing)
fn bytes_static_drop_model(_b: &mut bytes::Bytes) {}

fn wt_uni(session: u8, id: u64, log: &StopLog) -> StreamUniRemoteWT {
    StreamUniRemoteWT { session: sid(session), id, stops: log }
}

fn wt_bi(session: u8, id: u64, log: &StopLog) -> StreamBiRemoteWT {
    StreamBiRemoteWT { session: sid(session), id, stops: log }
}

/// what the worker stored as its final result in these harnesses: a local protocol error (anything that is not the
/// generic NotConnected would do; the mapping of every DriverError to the application's error is decided in mquic)
const WORKER_RESULT: ErrorCode = ErrorCode::ClosedCriticalStream;

fn is_worker_result(e: &DriverError) -> bool {
    matches!(e, DriverError::Proto(ErrorCode::ClosedCriticalStream))
}

fn empty_driver(result: Option<ErrorCode>, none: &RecvCtl) -> DriverH {
    DriverH {
        ready_uni_wt_streams: Mutex::new(Receiver::model([None, None, None], none)),
        ready_bi_wt_streams: Mutex::new(Receiver::model([None, None, None], none)),
        ready_datagrams: Mutex::new(Receiver::model([None, None, None], none)),
        driver_result: ModelResult { value: result },
    }
}

/// index of the first queued item (among the first `n`) whose session is `want`
fn first_match(s: &[u8; 2], n: usize, want: u8) -> Option<usize> {
    let mut i = 0;
    while i < n {
        if s[i] == want {
            return Some(i);
        }
        i += 1;
    }
    None
}

// @h props=C08,C17,C04 tier=quick t=2400 mem=24 sub=driver-accept-uni
// @fn wtransport/src/driver/mod.rs Driver::accept_uni, Driver::result (sliced)
// @bound a ready-queue of two streams of which 0..2 have arrived initially with session ids drawn from {0,4,8} and stream ids 2,6; the asked-for session in {0,4,8}; at most 3 polls, between polls another queued stream arrives / the queue closes / the lock frees up; the future is dropped after an arbitrary number of polls; unwind 6
// @oracle every stream taken off the queue is either the one returned or a foreign-session stream that was explicitly refused with WEBTRANSPORT_BUFFERED_STREAM_REJECTED (none is held by a dropped future, none vanishes); the returned stream is the first queued one of the asked-for session; Err only when the queue is closed and holds no such stream, and it is then the worker's stored result (here a local protocol error), not a generic NotConnected
// @assume MODEL tokio Mutex (free / held is the harness's choice at each poll), MODEL mpsc receiving half (scripted queue), MODEL stream types recording stop(code)
// @outside lock fairness between several accepting tasks; more than 2 queued streams
// @unwindset DriverH:4
#[kani::proof]
#[kani::unwind(6)]
fn a_driver_accept_uni() {
    let log = StopLog::new();
    let s: [u8; 2] = [kani::any(), kani::any()];
    kani::assume(s[0] < 3 && s[1] < 3);
    let want: u8 = kani::any();
    kani::assume(want < 3);
    let items = [
        Some(wt_uni(s[0], 2, &log)),
        Some(wt_uni(s[1], 6, &log)),
        None,
    ];
    let none = RecvCtl::new(0, true);
    let ctl = RecvCtl::new(any_upto(2), kani::any());
    let mut drv = empty_driver(Some(WORKER_RESULT), &none);
    drv.ready_uni_wt_streams = Mutex::new(Receiver::model(items, &ctl));
    drv.ready_uni_wt_streams.held_elsewhere.set(kani::any());
    let drop_after: u8 = kani::any();
    kani::assume(drop_after <= 3);
    let mut done = None;
    {
        let mut fut = std::pin::pin!(drv.accept_uni(sid(want)));
        let mut i = 0;
        while i < 3 && i < drop_after {
            match poll_pin(fut.as_mut()) {
                Poll::Ready(r) => {
                    done = Some(r);
                    break;
                }
                Poll::Pending => {
                    let rx = &ctl;
                    if kani::any() && rx.visible.get() < 2 && !rx.closed.get() {
                        rx.visible.set(rx.visible.get() + 1);
                    }
                    if kani::any() {
                        rx.closed.set(true);
                    }
                    if kani::any() {
                        drv.ready_uni_wt_streams.held_elsewhere.set(false);
                    }
                }
            }
            i += 1;
        }
    }
    let received = ctl.received.get();
    let rx_visible = ctl.visible.get();
    let n = rx_visible;
    let fm = first_match(&s, n, want);
    match &done {
        Some(Ok(stream)) => {
            assert!(stream.session == sid(want), "stream of another session returned");
            assert!(received == log.calls.get() + 1, "a stream taken off the queue vanished");
            assert!(fm == Some(received - 1), "not the first queued stream of this session");
            assert!(stream.id == 2 + 4 * (received as u64 - 1), "wrong stream returned");
        }
        Some(Err(e)) => {
            assert!(is_worker_result(e), "not the worker's stored result");
            assert!(received == log.calls.get(), "a stream taken off the queue vanished");
            assert!(fm.is_none() && received == n, "error although a stream of this session was queued");
        }
        None => assert!(received == log.calls.get(), "a cancelled accept holds a stream"),
    }
    if log.calls.get() > 0 {
        assert!(log.last_code.get() == ErrorCode::BufferedStreamRejected.to_code().into_inner(), "foreign stream refused with another code");
    }
    kani::cover!(matches!(done, Some(Ok(_))) && received == 2, "a foreign stream refused, the next one returned");
    kani::cover!(done.is_none() && received == 2, "cancelled after refusing two foreign streams");
    kani::cover!(done.is_none() && received == 0 && drop_after == 3, "cancelled while waiting");
    kani::cover!(matches!(done, Some(Err(_))) && received == 1);
    if let Some(Ok(st)) = done {
        std::mem::forget(st);
    }
}

// @h props=C08,C17,C04 tier=quick t=2400 mem=24 sub=driver-accept-bi
// @fn wtransport/src/driver/mod.rs Driver::accept_bi, Driver::result (sliced)
// @bound as a_driver_accept_uni with stream ids 0,4
// @oracle as a_driver_accept_uni (the receive half of a foreign bidirectional stream is the one that is stopped)
// @assume as a_driver_accept_uni
// @outside as a_driver_accept_uni
// @unwindset DriverH:4
#[kani::proof]
#[kani::unwind(6)]
fn a_driver_accept_bi() {
    let log = StopLog::new();
    let s: [u8; 2] = [kani::any(), kani::any()];
    kani::assume(s[0] < 3 && s[1] < 3);
    let want: u8 = kani::any();
    kani::assume(want < 3);
    let items = [
        Some(wt_bi(s[0], 0, &log)),
        Some(wt_bi(s[1], 4, &log)),
        None,
    ];
    let none = RecvCtl::new(0, true);
    let ctl = RecvCtl::new(any_upto(2), kani::any());
    let mut drv = empty_driver(Some(WORKER_RESULT), &none);
    drv.ready_bi_wt_streams = Mutex::new(Receiver::model(items, &ctl));
    drv.ready_bi_wt_streams.held_elsewhere.set(kani::any());
    let drop_after: u8 = kani::any();
    kani::assume(drop_after <= 3);
    let mut done = None;
    {
        let mut fut = std::pin::pin!(drv.accept_bi(sid(want)));
        let mut i = 0;
        while i < 3 && i < drop_after {
            match poll_pin(fut.as_mut()) {
                Poll::Ready(r) => {
                    done = Some(r);
                    break;
                }
                Poll::Pending => {
                    let rx = &ctl;
                    if kani::any() && rx.visible.get() < 2 && !rx.closed.get() {
                        rx.visible.set(rx.visible.get() + 1);
                    }
                    if kani::any() {
                        rx.closed.set(true);
                    }
                    if kani::any() {
                        drv.ready_bi_wt_streams.held_elsewhere.set(false);
                    }
                }
            }
            i += 1;
        }
    }
    let received = ctl.received.get();
    let rx_visible = ctl.visible.get();
    let n = rx_visible;
    let fm = first_match(&s, n, want);
    match &done {
        Some(Ok(stream)) => {
            assert!(stream.session == sid(want), "stream of another session returned");
            assert!(received == log.calls.get() + 1, "a stream taken off the queue vanished");
            assert!(fm == Some(received - 1), "not the first queued stream of this session");
            assert!(stream.id == 4 * (received as u64 - 1), "wrong stream returned");
        }
        Some(Err(e)) => {
            assert!(is_worker_result(e), "not the worker's stored result");
            assert!(received == log.calls.get(), "a stream taken off the queue vanished");
            assert!(fm.is_none() && received == n, "error although a stream of this session was queued");
        }
        None => assert!(received == log.calls.get(), "a cancelled accept holds a stream"),
    }
    if log.calls.get() > 0 {
        assert!(log.last_code.get() == ErrorCode::BufferedStreamRejected.to_code().into_inner(), "foreign stream refused with another code");
    }
    kani::cover!(matches!(done, Some(Ok(_))) && received == 2, "a foreign stream refused, the next one returned");
    kani::cover!(done.is_none() && received == 2, "cancelled after refusing two foreign streams");
    kani::cover!(done.is_none() && received == 0 && drop_after == 3, "cancelled while waiting");
    if let Some(Ok(st)) = done {
        std::mem::forget(st);
    }
}

// @h props=C08,C17,C03,C04 tier=quick t=2400 mem=24 sub=driver-receive-datagram
// @fn wtransport/src/driver/mod.rs Driver::receive_datagram, Driver::result (sliced); wtransport/src/datagram.rs Datagram::{read,session_id,payload} (re-hosted)
// @bound a ready-queue of two datagrams of which 0..2 have arrived initially for sessions drawn from {0,4,8} with distinct one-byte payloads; polls / cancellation as a_driver_accept_uni
// @oracle the datagram returned is the first queued one of the asked-for session, with its own payload; datagrams of other sessions are dropped, never delivered; Err only when the queue is closed and holds none for this session, and it is then the worker's stored result
// @assume MODEL tokio Mutex, MODEL mpsc receiving half; STUB <bytes::Bytes as Drop>::drop -> no-op (every Bytes in this harness is backed by a static slice, whose vtable drop is a no-op; the stub removes the function-pointer fan-out over all Bytes vtables, which exhausted 32 GB)
// @outside as a_driver_accept_uni
// @unwindset DriverH:4
#[kani::proof]
#[kani::unwind(6)]
#[kani::stub(<bytes::Bytes as std::ops::Drop>::drop, bytes_static_drop_model)]
fn a_driver_receive_datagram() {
    let s: [u8; 2] = [kani::any(), kani::any()];
    kani::assume(s[0] < 3 && s[1] < 3);
    let want: u8 = kani::any();
    kani::assume(want < 3);
    // quarter stream id k (session 4k) followed by a payload byte naming the queue position
    const RAW: [[u8; 2]; 9] = [[0, 0xa0], [1, 0xa0], [2, 0xa0], [0, 0xa1], [1, 0xa1], [2, 0xa1], [0, 0xa2], [1, 0xa2], [2, 0xa2]];
    let d = |pos: usize, k: u8| Datagram::read(bytes::Bytes::from_static(&RAW[pos * 3 + k as usize])).ok();
    let items = [
        d(0, s[0]),
        d(1, s[1]),
        None,
    ];
    let none = RecvCtl::new(0, true);
    let ctl = RecvCtl::new(any_upto(2), kani::any());
    let mut drv = empty_driver(Some(WORKER_RESULT), &none);
    drv.ready_datagrams = Mutex::new(Receiver::model(items, &ctl));
    drv.ready_datagrams.held_elsewhere.set(kani::any());
    let drop_after: u8 = kani::any();
    kani::assume(drop_after <= 3);
    let mut done = None;
    {
        let mut fut = std::pin::pin!(drv.receive_datagram(sid(want)));
        let mut i = 0;
        while i < 3 && i < drop_after {
            match poll_pin(fut.as_mut()) {
                Poll::Ready(r) => {
                    done = Some(r);
                    break;
                }
                Poll::Pending => {
                    let rx = &ctl;
                    if kani::any() && rx.visible.get() < 2 && !rx.closed.get() {
                        rx.visible.set(rx.visible.get() + 1);
                    }
                    if kani::any() {
                        rx.closed.set(true);
                    }
                    if kani::any() {
                        drv.ready_datagrams.held_elsewhere.set(false);
                    }
                }
            }
            i += 1;
        }
    }
    let received = ctl.received.get();
    let rx_visible = ctl.visible.get();
    let n = rx_visible;
    let fm = first_match(&s, n, want);
    match &done {
        Some(Ok(dgram)) => {
            assert!(dgram.session_id() == sid(want), "datagram of another session delivered");
            assert!(fm == Some(received - 1), "not the first queued datagram of this session");
            let p = dgram.payload();
            assert!(p.len() == 1 && p[0] == 0xa0 + (received as u8 - 1), "payload of another datagram");
        }
        Some(Err(e)) => {
            assert!(is_worker_result(e), "not the worker's stored result");
            assert!(fm.is_none() && received == n, "error although a datagram of this session was queued");
        }
        None => match fm {
            // a cancelled receive may only have consumed foreign datagrams
            Some(k) => assert!(received <= k, "a cancelled receive consumed a datagram of this session"),
            None => {}
        },
    }
    kani::cover!(matches!(done, Some(Ok(_))) && received == 2, "a foreign datagram dropped, the next one delivered");
    kani::cover!(done.is_none() && received == 2, "cancelled after dropping two foreign datagrams");
    if let Some(Ok(dg)) = done {
        std::mem::forget(dg);
    }
}

// @h props=C08 tier=quick t=900 expect=fail sub=twin
// @fn worker::Worker::accept_uni
// @oracle deliberately wrong: claims the worker never spawns a task
#[kani::proof]
#[kani::unwind(6)]
fn a_accept_twin_must_fail() {
    let conn = ModelConnection::new(StreamScript { outcome: 1, session: sid(1), suspends: 0 });
    conn.uni_ready.set(1);
    let h3 = ChanState::new(1, false);
    let wt = ChanState::new(1, false);
    let h3_tx: Sender<Result<StreamUniRemoteH3, DriverError>> = Sender::model(&h3);
    let wt_tx: Sender<StreamUniRemoteWT> = Sender::model(&wt);
    let r = poll_once(WorkerA::accept_uni(&conn, &h3_tx, &wt_tx));
    assert!(r.is_some());
    assert!(tokio::model_spawned() == 0, "twin: wrong oracle");
}

// @h props=C08 tier=quick t=1800 sub=worker-accept-backlog
// @fn wtransport/src/driver/mod.rs worker::Worker::accept_uni (sliced, incl. the task it spawns)
// @bound the application is not accepting: the wt hand-off queue has no free slot (0..1 slots on the h3 queue); one WebTransport stream is ready on the connection; at most 2 polls, between them a slot may or may not be freed; the task runs to completion
// @oracle a WebTransport stream pulled from the connection ends up on the wt queue: pulled == queued. With the queue full the worker must wait (the stream stays with quinn, where the peer's flow control holds it) - it must not pull the stream and discard it
// @assume as a_worker_accept_uni_task
// @outside as a_worker_accept_uni_cancel
#[kani::proof]
#[kani::unwind(6)]
fn a_worker_accept_uni_backlog() {
    tokio::model_run_tasks(true);
    let conn = ModelConnection::new(StreamScript { outcome: 1, session: sid(1), suspends: 0 });
    conn.uni_ready.set(1);
    let h3 = ChanState::new(any_upto(1), false);
    let wt = ChanState::new(0, false);
    let h3_tx: Sender<Result<StreamUniRemoteH3, DriverError>> = Sender::model(&h3);
    let wt_tx: Sender<StreamUniRemoteWT> = Sender::model(&wt);
    let freed: bool = kani::any();
    {
        let mut fut = std::pin::pin!(WorkerA::accept_uni(&conn, &h3_tx, &wt_tx));
        if poll_pin(fut.as_mut()).is_pending() {
            if freed {
                wt.free.set(1);
                h3.free.set(1);
            }
            let _ = poll_pin(fut.as_mut());
        }
    }
    assert!(conn.uni_pulled.get() == wt.sent.get(), "a WebTransport stream was pulled from the connection but not queued for the application");
    assert!(h3.sent.get() == 0, "WebTransport stream routed to the h3 queue");
    kani::cover!(conn.uni_pulled.get() == 1, "delivered once a slot was freed");
    kani::cover!(conn.uni_pulled.get() == 0, "left with the transport while the queue is full");
}
