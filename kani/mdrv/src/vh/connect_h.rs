//! ConnectStream::run (real driver/streams/connect.rs) against a scripted session stream: C04 mapping of
//! capsule / FIN / reset onto DriverError, C13 unknown capsules and non-DATA frames skipped
use super::*;
use crate::driver::streams::connect::ConnectStream;
use crate::driver::streams::models::{Ev, Script, PAYLOAD_MAX};
use crate::driver::streams::session::StreamSession;
use crate::driver::DriverError;
use std::cell::Cell;
use std::rc::Rc;
use wtransport_proto::error::ErrorCode;

struct Outcome {
    err: DriverError,
    reset: Option<u64>,
    taken: bool,
    reads: usize,
}

fn run(events: [Ev; 3], n: usize) -> Outcome {
    let log = Rc::new(Cell::new(None));
    let mut cs = ConnectStream::empty();
    cs.set_stream(StreamSession { script: Script { events, n, reads: 0 }, reset_log: log.clone(), stop_log: Rc::new(Cell::new(None)) });
    let err = poll_once(cs.run()).expect("run() pending although the scripted stream never is");
    Outcome { err, reset: log.get(), taken: cs.is_empty(), reads: 0 }
}

/// an ignorable event in front of the decisive one: HEADERS / GREASE frame, or a DATA frame holding an unknown capsule
fn any_ignorable() -> Ev {
    let k: u8 = kani::any();
    kani::assume(k < 3);
    let mut bytes = [0u8; PAYLOAD_MAX];
    match k {
        0 => Ev::Frame { kind: 1, bytes, len: 0 },
        1 => Ev::Frame { kind: 3, bytes, len: 0 },
        _ => {
            // DATA frame with an unknown capsule type t (1-byte varint != 0x2843 trivially), length 1, one byte
            let t: u8 = kani::any();
            kani::assume(t < 0x40);
            bytes[0] = t;
            bytes[1] = 1;
            bytes[2] = kani::any();
            Ev::Frame { kind: 0, bytes, len: 3 }
        }
    }
}

fn close_capsule<const R: usize>() {
    let code: u32 = kani::any();
    let reason: [u8; R] = kani::any();
    let mut bytes = [0u8; PAYLOAD_MAX];
    bytes[0] = 0x68;
    bytes[1] = 0x43;
    bytes[2] = (4 + R) as u8;
    bytes[3] = (code >> 24) as u8;
    bytes[4] = (code >> 16) as u8;
    bytes[5] = (code >> 8) as u8;
    bytes[6] = code as u8;
    let mut i = 0;
    while i < R {
        bytes[7 + i] = reason[i];
        i += 1;
    }
    let capsule = Ev::Frame { kind: 0, bytes, len: 7 + R };
    let with_prefix: bool = kani::any();
    let events = if with_prefix { [any_ignorable(), capsule, Ev::NotConnected] } else { [capsule, Ev::NotConnected, Ev::NotConnected] };
    let out = run(events, if with_prefix { 2 } else { 1 });
    let valid = utf8_model_ok(&reason);
    match &out.err {
        DriverError::ApplicationClosed(ac) => {
            assert!(valid, "close capsule with an ill-formed UTF-8 reason reported as an application close");
            assert!(ac.code().into_inner() == code as u64, "close code altered");
            assert!(ac.reason().len() == R, "reason length altered");
            let mut i = 0;
            while i < R {
                assert!(ac.reason()[i] == reason[i], "reason bytes altered");
                i += 1;
            }
            assert!(out.reset == Some(0x100) && out.taken, "session stream not reset with H3_NO_ERROR after the close capsule");
            kani::cover!(with_prefix, "ignorable element before the close capsule");
            kani::cover!(code == u32::MAX, "largest code");
        }
        DriverError::Proto(e) => {
            assert!(!valid, "well-formed close capsule reported as a protocol failure");
            assert!(e.to_code().into_inner() == 0x33, "malformed capsule must be H3_DATAGRAM_ERROR");
            assert!(out.reset.is_none());
            kani::cover!(true, "ill-formed reason => protocol failure");
        }
        DriverError::NotConnected => assert!(false, "close capsule skipped"),
    }
    core::mem::forget(out);
}

// @h props=C04,C13 tier=quick t=3000 mem=20 sub=connect-close-capsule
// @fn wtransport/src/driver/streams/connect.rs ConnectStream::run (re-hosted); wtransport-proto/src/capsule/mod.rs Capsule::with_frame; wtransport-proto/src/capsule/close_wt_session.rs CloseWebTransportSession::with_capsule; wtransport/src/error.rs ApplicationClose::new (sliced)
// @bound every 32-bit code, every 2-byte reason; optionally preceded by one ignorable element (HEADERS frame, GREASE frame, or DATA frame with an unknown 1-byte capsule type and one payload byte)
// @oracle valid UTF-8 => ApplicationClosed with exactly that code and reason, stream reset with H3_NO_ERROR; ill-formed UTF-8 => Proto(H3_DATAGRAM_ERROR), never ApplicationClosed; the ignorable element changes nothing (C13)
// @assume scripted StreamSession model; run_utf8_validation stubbed by the byte-wise model; mproto mirror as wtransport-proto
// @outside reasons > 2 bytes in quick (thorough: 5); capsules split across DATA frames
#[kani::proof]
#[kani::unwind(14)]
#[kani::stub(core::str::validations::run_utf8_validation, crate::vh::utf8_validation_stub)]
fn d_connect_close_capsule_r2() {
    close_capsule::<2>()
}

// @h props=C04 tier=thorough t=3600 mem=24 sub=connect-close-capsule
// @fn wtransport/src/driver/streams/connect.rs ConnectStream::run
// @bound as d_connect_close_capsule_r2 with a 5-byte reason
// @oracle as d_connect_close_capsule_r2
// @assume as d_connect_close_capsule_r2
#[kani::proof]
#[kani::unwind(14)]
#[kani::stub(core::str::validations::run_utf8_validation, crate::vh::utf8_validation_stub)]
fn d_connect_close_capsule_r5() {
    close_capsule::<5>()
}

// @h props=C04,C13 tier=quick t=3000 mem=20 sub=connect-termination
// @fn wtransport/src/driver/streams/connect.rs ConnectStream::run
// @bound one terminating event (clean FIN, FIN inside a frame, reset, connection lost, H3 error with one of 5 codes), optionally preceded by one ignorable element
// @oracle clean FIN => ApplicationClosed(0, ""); UnexpectedFin / Reset => Proto(H3_CLOSED_CRITICAL_STREAM), never ApplicationClosed; NotConnected => NotConnected; H3(c) => Proto(c); ignorable elements never close the session by themselves
// @assume scripted StreamSession model
#[kani::proof]
#[kani::unwind(14)]
#[kani::stub(core::str::validations::run_utf8_validation, crate::vh::utf8_validation_stub)]
fn d_connect_termination() {
    let k: u8 = kani::any();
    kani::assume(k < 5);
    let hsel: u8 = kani::any();
    kani::assume(hsel < 5);
    let hcodes = [ErrorCode::FrameUnexpected, ErrorCode::Frame, ErrorCode::Id, ErrorCode::ExcessiveLoad, ErrorCode::Decompression];
    let term = match k {
        0 => Ev::ImmediateFin,
        1 => Ev::UnexpectedFin,
        2 => Ev::Reset,
        3 => Ev::NotConnected,
        _ => Ev::H3(hcodes[hsel as usize]),
    };
    let with_prefix: bool = kani::any();
    let events = if with_prefix { [any_ignorable(), term, Ev::NotConnected] } else { [term, Ev::NotConnected, Ev::NotConnected] };
    let out = run(events, if with_prefix { 2 } else { 1 });
    match (&out.err, k) {
        (DriverError::ApplicationClosed(ac), 0) => {
            assert!(ac.code().into_inner() == 0 && ac.reason().is_empty(), "clean finish must be code 0, empty reason");
            kani::cover!(with_prefix, "clean FIN after an ignorable element");
        }
        (DriverError::Proto(e), 1) | (DriverError::Proto(e), 2) => {
            assert!(e.to_code().into_inner() == 0x104, "abrupt termination must be H3_CLOSED_CRITICAL_STREAM");
            kani::cover!(k == 2, "reset");
        }
        (DriverError::NotConnected, 3) => {
            kani::cover!(true, "not connected");
        }
        (DriverError::Proto(e), 4) => {
            assert!(e.to_code().into_inner() == hcodes[hsel as usize].to_code().into_inner(), "H3 error code altered");
            kani::cover!(true, "h3 error");
        }
        _ => assert!(false, "termination misattributed"),
    }
    assert!(out.reset.is_none(), "stream reset without a close capsule");
    core::mem::forget(out);
}

// @h props=C04,C11 tier=quick t=3000 mem=20 sub=connect-malformed-capsule
// @fn wtransport/src/driver/streams/connect.rs ConnectStream::run; wtransport-proto/src/capsule/close_wt_session.rs CloseWebTransportSession::with_capsule
// @bound a DATA frame holding a close capsule whose declared length L is 0..=3 (too short for the code), contents symbolic, followed by connection loss
// @oracle Proto(H3_DATAGRAM_ERROR); never ApplicationClosed
// @assume scripted StreamSession model
#[kani::proof]
#[kani::unwind(14)]
#[kani::stub(core::str::validations::run_utf8_validation, crate::vh::utf8_validation_stub)]
fn d_connect_short_capsule() {
    let l: u8 = kani::any();
    kani::assume(l <= 3);
    let mut bytes: [u8; PAYLOAD_MAX] = kani::any();
    bytes[0] = 0x68;
    bytes[1] = 0x43;
    bytes[2] = l;
    let capsule = Ev::Frame { kind: 0, bytes, len: 3 + l as usize };
    let out = run([capsule, Ev::NotConnected, Ev::NotConnected], 1);
    match &out.err {
        DriverError::Proto(e) => {
            assert!(e.to_code().into_inner() == 0x33);
            kani::cover!(l == 3, "3-byte close capsule");
        }
        _ => assert!(false, "close capsule shorter than its code not reported as a protocol failure"),
    }
    core::mem::forget(out);
}

// @h props=C04,C13 tier=quick t=900 expect=fail sub=twin
// @fn wtransport/src/driver/streams/connect.rs ConnectStream::run
// @bound twin: claims a clean FIN is a protocol failure; must be refuted
#[kani::proof]
#[kani::unwind(14)]
fn d_connect_twin_must_fail() {
    let out = run([Ev::ImmediateFin, Ev::NotConnected, Ev::NotConnected], 1);
    assert!(matches!(out.err, DriverError::Proto(_)), "twin: wrong oracle");
    core::mem::forget(out);
}
