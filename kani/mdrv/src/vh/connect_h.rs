//! ConnectStream::run (real driver/streams/connect.rs) against a scripted session stream: C04 mapping of
//! capsule / FIN / reset onto DriverError, C13 unknown capsules and non-DATA frames skipped
use super::*;
use crate::driver::streams::connect::ConnectStream;
use crate::driver::streams::models::{Ev, Script};
use std::borrow::Cow;
use wtransport_proto::frame::Frame;
use wtransport_proto::varint::VarInt;
use crate::driver::streams::session::StreamSession;
use crate::driver::DriverError;
use std::cell::Cell;
use std::rc::Rc;
use wtransport_proto::error::ErrorCode;

struct Outcome {
    err: DriverError,
    reset: Option<u64>,
    taken: bool,
    reads: usize,
}

fn run(events: [Option<Ev>; 3], n: usize) -> Outcome {
    let log = Rc::new(Cell::new(None));
    let mut cs = ConnectStream::empty();
    cs.set_stream(StreamSession { script: Script { events, n, reads: 0 }, reset_log: log.clone(), stop_log: Rc::new(Cell::new(None)) });
    let err = poll_once(cs.run()).expect("run() pending although the scripted stream never is");
    Outcome { err, reset: log.get(), taken: cs.is_empty(), reads: 0 }
}

/// an ignorable event in front of the decisive one; the KIND is fixed per harness instance (a symbolic kind gives the
/// frame a symbolic length, and a Vec allocated under a symbolic length is a merged pointer: slow and over-approximated):
/// 1 HEADERS frame, 2 GREASE frame, 3 DATA frame holding an unknown capsule (symbolic 1-byte type, one payload byte)
fn ignorable(kind: u8) -> Ev {
    match kind {
        1 => Ev::Frame(Frame::new_headers(Cow::Owned(Vec::new()))),
        2 => Ev::Frame(Frame::new_exercise(VarInt::from_u32(0x21), Cow::Owned(Vec::new()))),
        _ => {
            let t: u8 = kani::any();
            kani::assume(t < 0x40);
            let p: u8 = kani::any();
            Ev::Frame(Frame::new_data(Cow::Owned([t, 1, p].to_vec())))
        }
    }
}

fn close_capsule<const R: usize, const PREFIX: u8>() {
    let code: u32 = kani::any();
    let reason: [u8; R] = kani::any();
    let head = [0x68, 0x43, (4 + R) as u8, (code >> 24) as u8, (code >> 16) as u8, (code >> 8) as u8, code as u8];
    let mut payload: Vec<u8> = Vec::with_capacity(7 + R);
    payload.extend_from_slice(&head);
    payload.extend_from_slice(&reason);
    let capsule = Some(Ev::Frame(Frame::new_data(Cow::Owned(payload))));
    let with_prefix = PREFIX != 0;
    let events = if with_prefix { [Some(ignorable(PREFIX)), capsule, None] } else { [capsule, None, None] };
    let out = run(events, if with_prefix { 2 } else { 1 });
    let valid = utf8_model_ok(&reason);
    match &out.err {
        DriverError::ApplicationClosed(ac) => {
            assert!(valid, "close capsule with an ill-formed UTF-8 reason reported as an application close");
            assert!(ac.code().into_inner() == code as u64, "close code altered");
            assert!(ac.reason().len() == R, "reason length altered");
            let mut i = 0;
            while i < R {
                assert!(ac.reason()[i] == reason[i], "reason bytes altered");
                i += 1;
            }
            assert!(out.reset == Some(0x100) && out.taken, "session stream not reset with H3_NO_ERROR after the close capsule");
            kani::cover!(true, "application close reported");
            kani::cover!(code == u32::MAX, "largest code");
        }
        DriverError::Proto(e) => {
            assert!(!valid, "well-formed close capsule reported as a protocol failure");
            assert!(e.to_code().into_inner() == 0x33, "malformed capsule must be H3_DATAGRAM_ERROR");
            assert!(out.reset.is_none());
            kani::cover!(true, "ill-formed reason => protocol failure");
        }
        DriverError::NotConnected => assert!(false, "close capsule skipped"),
    }
    core::mem::forget(out);
}

// @h props=C04,C13 tier=quick t=3000 mem=20 sub=connect-close-capsule
// @fn wtransport/src/driver/streams/connect.rs ConnectStream::run (re-hosted); wtransport-proto/src/capsule/mod.rs Capsule::with_frame; wtransport-proto/src/capsule/close_wt_session.rs CloseWebTransportSession::with_capsule; wtransport/src/error.rs ApplicationClose::new (sliced)
// @bound close capsule with every 32-bit code and every 2-byte reason, no element before it
// @oracle valid UTF-8 => ApplicationClosed with exactly that code and reason, stream reset with H3_NO_ERROR; ill-formed UTF-8 => Proto(H3_DATAGRAM_ERROR), never ApplicationClosed; the ignorable element changes nothing (C13)
// @assume scripted StreamSession model; run_utf8_validation stubbed by the byte-wise model; mproto mirror as wtransport-proto
// @outside other reason lengths (boundary 1024/1025: c11_capsule_reason_*); capsules split across DATA frames
// @unwindset ConnectStream::run:4
#[kani::proof]
#[kani::unwind(14)]
#[kani::stub(core::str::validations::run_utf8_validation, crate::vh::utf8_validation_stub)]
fn d_connect_close_capsule_r2_p0() {
    close_capsule::<2, 0>()
}

// @h props=C04,C13 tier=quick t=3000 mem=20 sub=connect-close-capsule
// @fn wtransport/src/driver/streams/connect.rs ConnectStream::run (re-hosted); wtransport-proto/src/capsule/mod.rs Capsule::with_frame; wtransport-proto/src/capsule/close_wt_session.rs CloseWebTransportSession::with_capsule; wtransport/src/error.rs ApplicationClose::new (sliced)
// @bound close capsule with every 32-bit code and every 2-byte reason, preceded by a DATA frame holding an unknown capsule (symbolic 1-byte type, one payload byte)
// @oracle valid UTF-8 => ApplicationClosed with exactly that code and reason, stream reset with H3_NO_ERROR; ill-formed UTF-8 => Proto(H3_DATAGRAM_ERROR), never ApplicationClosed; the ignorable element changes nothing (C13)
// @assume scripted StreamSession model; run_utf8_validation stubbed by the byte-wise model; mproto mirror as wtransport-proto
// @outside other reason lengths (boundary 1024/1025: c11_capsule_reason_*); capsules split across DATA frames
// @unwindset ConnectStream::run:4
#[kani::proof]
#[kani::unwind(14)]
#[kani::stub(core::str::validations::run_utf8_validation, crate::vh::utf8_validation_stub)]
fn d_connect_close_capsule_r2_p3() {
    close_capsule::<2, 3>()
}

// @h props=C04,C13 tier=thorough t=3000 mem=20 sub=connect-close-capsule
// @fn wtransport/src/driver/streams/connect.rs ConnectStream::run (re-hosted); wtransport-proto/src/capsule/mod.rs Capsule::with_frame; wtransport-proto/src/capsule/close_wt_session.rs CloseWebTransportSession::with_capsule; wtransport/src/error.rs ApplicationClose::new (sliced)
// @bound close capsule with every 32-bit code and every 2-byte reason, preceded by a HEADERS frame
// @oracle valid UTF-8 => ApplicationClosed with exactly that code and reason, stream reset with H3_NO_ERROR; ill-formed UTF-8 => Proto(H3_DATAGRAM_ERROR), never ApplicationClosed; the ignorable element changes nothing (C13)
// @assume scripted StreamSession model; run_utf8_validation stubbed by the byte-wise model; mproto mirror as wtransport-proto
// @outside other reason lengths (boundary 1024/1025: c11_capsule_reason_*); capsules split across DATA frames
// @unwindset ConnectStream::run:4
#[kani::proof]
#[kani::unwind(14)]
#[kani::stub(core::str::validations::run_utf8_validation, crate::vh::utf8_validation_stub)]
fn d_connect_close_capsule_r2_p1() {
    close_capsule::<2, 1>()
}

// @h props=C04,C13 tier=thorough t=3000 mem=20 sub=connect-close-capsule
// @fn wtransport/src/driver/streams/connect.rs ConnectStream::run (re-hosted); wtransport-proto/src/capsule/mod.rs Capsule::with_frame; wtransport-proto/src/capsule/close_wt_session.rs CloseWebTransportSession::with_capsule; wtransport/src/error.rs ApplicationClose::new (sliced)
// @bound close capsule with every 32-bit code and every 2-byte reason, preceded by a GREASE frame
// @oracle valid UTF-8 => ApplicationClosed with exactly that code and reason, stream reset with H3_NO_ERROR; ill-formed UTF-8 => Proto(H3_DATAGRAM_ERROR), never ApplicationClosed; the ignorable element changes nothing (C13)
// @assume scripted StreamSession model; run_utf8_validation stubbed by the byte-wise model; mproto mirror as wtransport-proto
// @outside other reason lengths (boundary 1024/1025: c11_capsule_reason_*); capsules split across DATA frames
// @unwindset ConnectStream::run:4
#[kani::proof]
#[kani::unwind(14)]
#[kani::stub(core::str::validations::run_utf8_validation, crate::vh::utf8_validation_stub)]
fn d_connect_close_capsule_r2_p2() {
    close_capsule::<2, 2>()
}

// @h props=C04,C13 tier=thorough t=3000 mem=20 sub=connect-close-capsule
// @fn wtransport/src/driver/streams/connect.rs ConnectStream::run (re-hosted); wtransport-proto/src/capsule/mod.rs Capsule::with_frame; wtransport-proto/src/capsule/close_wt_session.rs CloseWebTransportSession::with_capsule; wtransport/src/error.rs ApplicationClose::new (sliced)
// @bound close capsule with every 32-bit code and every 5-byte reason, no element before it
// @oracle valid UTF-8 => ApplicationClosed with exactly that code and reason, stream reset with H3_NO_ERROR; ill-formed UTF-8 => Proto(H3_DATAGRAM_ERROR), never ApplicationClosed; the ignorable element changes nothing (C13)
// @assume scripted StreamSession model; run_utf8_validation stubbed by the byte-wise model; mproto mirror as wtransport-proto
// @outside other reason lengths (boundary 1024/1025: c11_capsule_reason_*); capsules split across DATA frames
// @unwindset ConnectStream::run:4
#[kani::proof]
#[kani::unwind(14)]
#[kani::stub(core::str::validations::run_utf8_validation, crate::vh::utf8_validation_stub)]
fn d_connect_close_capsule_r5_p0() {
    close_capsule::<5, 0>()
}

fn termination<const PREFIX: u8>() {
    let k: u8 = kani::any();
    kani::assume(k < 5);
    let hsel: u8 = kani::any();
    kani::assume(hsel < 5);
    let hcodes = [ErrorCode::FrameUnexpected, ErrorCode::Frame, ErrorCode::Id, ErrorCode::ExcessiveLoad, ErrorCode::Decompression];
    let term = match k {
        0 => Ev::ImmediateFin,
        1 => Ev::UnexpectedFin,
        2 => Ev::Reset,
        3 => Ev::NotConnected,
        _ => Ev::H3(hcodes[hsel as usize]),
    };
    let with_prefix = PREFIX != 0;
    let events = if with_prefix { [Some(ignorable(PREFIX)), Some(term), None] } else { [Some(term), None, None] };
    let out = run(events, if with_prefix { 2 } else { 1 });
    match (&out.err, k) {
        (DriverError::ApplicationClosed(ac), 0) => {
            assert!(ac.code().into_inner() == 0 && ac.reason().is_empty(), "clean finish must be code 0, empty reason");
            kani::cover!(true, "clean FIN");
        }
        (DriverError::Proto(e), 1) | (DriverError::Proto(e), 2) => {
            assert!(e.to_code().into_inner() == 0x104, "abrupt termination must be H3_CLOSED_CRITICAL_STREAM");
            kani::cover!(k == 2, "reset");
        }
        (DriverError::NotConnected, 3) => {
            kani::cover!(true, "not connected");
        }
        (DriverError::Proto(e), 4) => {
            assert!(e.to_code().into_inner() == hcodes[hsel as usize].to_code().into_inner(), "H3 error code altered");
            kani::cover!(true, "h3 error");
        }
        _ => assert!(false, "termination misattributed"),
    }
    assert!(out.reset.is_none(), "stream reset without a close capsule");
    core::mem::forget(out);
}

// @h props=C04,C13 tier=quick t=3000 mem=20 sub=connect-termination
// @fn wtransport/src/driver/streams/connect.rs ConnectStream::run
// @bound one terminating event (clean FIN, FIN inside a frame, reset, connection lost, H3 error with one of 5 codes), not preceded by anything
// @oracle clean FIN => ApplicationClosed(0, ""); UnexpectedFin / Reset => Proto(H3_CLOSED_CRITICAL_STREAM), never ApplicationClosed; NotConnected => NotConnected; H3(c) => Proto(c); ignorable elements never close the session by themselves
// @assume scripted StreamSession model
// @unwindset ConnectStream::run:4
#[kani::proof]
#[kani::unwind(14)]
#[kani::stub(core::str::validations::run_utf8_validation, crate::vh::utf8_validation_stub)]
fn d_connect_termination_p0() {
    termination::<0>()
}

// @h props=C04,C13 tier=quick t=3000 mem=20 sub=connect-termination
// @fn wtransport/src/driver/streams/connect.rs ConnectStream::run
// @bound one terminating event (clean FIN, FIN inside a frame, reset, connection lost, H3 error with one of 5 codes), preceded by a DATA frame holding an unknown capsule
// @oracle clean FIN => ApplicationClosed(0, ""); UnexpectedFin / Reset => Proto(H3_CLOSED_CRITICAL_STREAM), never ApplicationClosed; NotConnected => NotConnected; H3(c) => Proto(c); ignorable elements never close the session by themselves
// @assume scripted StreamSession model
// @unwindset ConnectStream::run:4
#[kani::proof]
#[kani::unwind(14)]
#[kani::stub(core::str::validations::run_utf8_validation, crate::vh::utf8_validation_stub)]
fn d_connect_termination_p3() {
    termination::<3>()
}

// @h props=C04,C13 tier=thorough t=3000 mem=20 sub=connect-termination
// @fn wtransport/src/driver/streams/connect.rs ConnectStream::run
// @bound one terminating event (clean FIN, FIN inside a frame, reset, connection lost, H3 error with one of 5 codes), preceded by a GREASE frame
// @oracle clean FIN => ApplicationClosed(0, ""); UnexpectedFin / Reset => Proto(H3_CLOSED_CRITICAL_STREAM), never ApplicationClosed; NotConnected => NotConnected; H3(c) => Proto(c); ignorable elements never close the session by themselves
// @assume scripted StreamSession model
// @unwindset ConnectStream::run:4
#[kani::proof]
#[kani::unwind(14)]
#[kani::stub(core::str::validations::run_utf8_validation, crate::vh::utf8_validation_stub)]
fn d_connect_termination_p2() {
    termination::<2>()
}

fn short_capsule<const L: u8>() {
    let l: u8 = L;
    let body: [u8; 3] = kani::any();
    let mut payload: Vec<u8> = Vec::with_capacity(6);
    payload.extend_from_slice(&[0x68, 0x43, l]);
    payload.extend_from_slice(&body[..L as usize]);
    let capsule = Some(Ev::Frame(Frame::new_data(Cow::Owned(payload))));
    let out = run([capsule, None, None], 1);
    match &out.err {
        DriverError::Proto(e) => {
            assert!(e.to_code().into_inner() == 0x33);
            kani::cover!(true, "short close capsule refused");
        }
        _ => assert!(false, "close capsule shorter than its code not reported as a protocol failure"),
    }
    core::mem::forget(out);
}

// @h props=C04,C11 tier=quick t=3000 mem=20 sub=connect-malformed-capsule
// @fn wtransport/src/driver/streams/connect.rs ConnectStream::run; wtransport-proto/src/capsule/close_wt_session.rs CloseWebTransportSession::with_capsule
// @bound a DATA frame holding a close capsule whose declared length is 3 (too short for the 4-byte code), contents symbolic, followed by connection loss
// @oracle Proto(H3_DATAGRAM_ERROR); never ApplicationClosed
// @assume scripted StreamSession model
// @unwindset ConnectStream::run:4
#[kani::proof]
#[kani::unwind(14)]
#[kani::stub(core::str::validations::run_utf8_validation, crate::vh::utf8_validation_stub)]
fn d_connect_short_capsule_l3() {
    short_capsule::<3>()
}

// @h props=C04,C11 tier=quick t=3000 mem=20 sub=connect-malformed-capsule
// @fn wtransport/src/driver/streams/connect.rs ConnectStream::run; wtransport-proto/src/capsule/close_wt_session.rs CloseWebTransportSession::with_capsule
// @bound a DATA frame holding a close capsule whose declared length is 0 (too short for the 4-byte code), contents symbolic, followed by connection loss
// @oracle Proto(H3_DATAGRAM_ERROR); never ApplicationClosed
// @assume scripted StreamSession model
// @unwindset ConnectStream::run:4
#[kani::proof]
#[kani::unwind(14)]
#[kani::stub(core::str::validations::run_utf8_validation, crate::vh::utf8_validation_stub)]
fn d_connect_short_capsule_l0() {
    short_capsule::<0>()
}

// @h props=C04,C13 tier=quick t=900 expect=fail sub=twin
// @fn wtransport/src/driver/streams/connect.rs ConnectStream::run
// @bound twin: claims a clean FIN is a protocol failure; must be refuted
// @unwindset ConnectStream::run:4
#[kani::proof]
#[kani::unwind(14)]
#[kani::stub(core::str::validations::run_utf8_validation, crate::vh::utf8_validation_stub)]
fn d_connect_twin_must_fail() {
    let out = run([Some(Ev::ImmediateFin), None, None], 1);
    assert!(matches!(out.err, DriverError::Proto(_)), "twin: wrong oracle");
    core::mem::forget(out);
}
