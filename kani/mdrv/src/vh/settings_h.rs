//! driver/streams/settings.rs (re-hosted): RemoteSettingsStream::run (C12: first frame must be SETTINGS, later only
//! GREASE; closed critical stream), LocalSettingsStream::{empty,send_settings,run} (C16: exactly the advertised SETTINGS)
use super::*;
use crate::driver::streams::models::{CEv, ControlScript};
use crate::driver::streams::settings::{LocalSettingsStream, RemoteSettingsStream};
use crate::driver::streams::unilocal::{StreamUniLocalH3, WriteLog};
use crate::driver::streams::uniremote::StreamUniRemoteH3;
use crate::driver::DriverError;
use crate::VarInt;
use wtransport_proto::error::ErrorCode;
use wtransport_proto::vh::util::{ref_setting_class, ref_varint_get, IdClass};

/// alphabet of control-stream events: 0 SETTINGS (valid, 1 pair 0x33=1) 1 SETTINGS (empty) 2 SETTINGS with a reserved
/// id (0x02) 3 GREASE frame 4 DATA 5 HEADERS 6 clean FIN 7 FIN inside a frame 8 reset 9 connection lost
/// 10 H3_FRAME_UNEXPECTED from the typestate reader
fn ev(sel: u8) -> CEv {
    match sel {
        0 => CEv::SettingsOk,
        1 => CEv::SettingsEmpty,
        2 => CEv::SettingsReserved,
        3 => CEv::Grease,
        4 => CEv::Data,
        5 => CEv::Headers,
        6 => CEv::ImmediateFin,
        7 => CEv::UnexpectedFin,
        8 => CEv::Reset,
        9 => CEv::NotConnected,
        _ => CEv::H3FrameUnexpected,
    }
}

/// reference verdict per RFC 9114 §6.2.1 / §7.2.4: Some(code) = connection error, None = keep reading
fn reference(sel: u8, settings_seen: bool) -> Option<Result<u64, ()>> {
    match sel {
        6 | 7 | 8 => Some(Ok(0x104)),           // closing a critical stream => H3_CLOSED_CRITICAL_STREAM
        9 => Some(Err(())),                      // transport gone => NotConnected
        10 => Some(Ok(0x105)),
        _ => {
            if !settings_seen {
                match sel {
                    0 | 1 => None,                       // first frame is SETTINGS: accepted
                    2 => Some(Ok(0x109)),                // reserved setting id => H3_SETTINGS_ERROR
                    _ => Some(Ok(0x10a)),                // anything else first => H3_MISSING_SETTINGS
                }
            } else {
                match sel {
                    3 => None,                           // GREASE frames are ignored
                    _ => Some(Ok(0x105)),                // second SETTINGS, DATA, HEADERS => H3_FRAME_UNEXPECTED
                }
            }
        }
    }
}

fn remote_run(events: [CEv; 3], sels: [u8; 3], n: usize) {
    let mut rs = RemoteSettingsStream::empty();
    rs.set_stream(StreamUniRemoteH3::control(ControlScript { events, n, reads: 0 }));
    let out = poll_once(rs.run()).expect("run() pending although the scripted stream never is");
    // reference run
    let mut seen = false;
    let mut expect: Result<u64, ()> = Err(()); // script exhausted => connection lost
    let mut i = 0;
    while i < n {
        match reference(sels[i], seen) {
            Some(v) => {
                expect = v;
                break;
            }
            None => {
                if sels[i] == 0 || sels[i] == 1 {
                    seen = true;
                }
            }
        }
        i += 1;
    }
    match (&out, expect) {
        (DriverError::Proto(e), Ok(code)) => {
            assert!(e.to_code().into_inner() == code, "control stream violation answered with a wrong error code");
            kani::cover!(code == 0x10a, "missing settings");
            kani::cover!(code == 0x105 && i == 1 && sels[1] == 0, "second SETTINGS refused");
            kani::cover!(code == 0x104 && i == 2, "critical stream closed after SETTINGS and GREASE");
            kani::cover!(code == 0x109, "reserved setting");
        }
        (DriverError::NotConnected, Err(())) => {
            kani::cover!(n == 3 && i == 3 && sels[1] == 3 && sels[2] == 3, "SETTINGS, GREASE, GREASE accepted until the connection goes away");
        }
        _ => assert!(false, "reaction to the control-stream sequence differs from RFC 9114"),
    }
    core::mem::forget(out);
}

// @h props=C12,C13 tier=quick t=3000 mem=20 sub=remote-settings-first covers=any
// @fn wtransport/src/driver/streams/settings.rs RemoteSettingsStream::{run,read_frame,set_stream} (re-hosted); wtransport-proto/src/settings.rs Settings::with_frame (mirror)
// @bound the first control-stream event: every symbol of the 11-symbol alphabet {SETTINGS ok, SETTINGS empty, SETTINGS with reserved id, GREASE, DATA, HEADERS, clean FIN, FIN inside a frame, reset, connection lost, H3 error from the reader}, then the connection goes away
// @oracle RFC 9114 §6.2.1/§7.2.4: first frame not SETTINGS (incl. GREASE first) => H3_MISSING_SETTINGS; malformed SETTINGS => its code; FIN/reset => H3_CLOSED_CRITICAL_STREAM; connection lost => NotConnected; valid SETTINGS accepted
// @assume scripted StreamUniRemoteH3 model; tokio::sync::watch model (shared cell); mproto mirror as wtransport-proto
#[kani::proof]
#[kani::unwind(4)]
fn d_remote_settings_first() {
    let s0: u8 = kani::any();
    kani::assume(s0 < 11);
    remote_run([ev(s0), ev(9), ev(9)], [s0, 9, 9], 1);
}

// @h props=C12,C13 tier=quick t=3000 mem=20 sub=remote-settings-after covers=any
// @fn wtransport/src/driver/streams/settings.rs RemoteSettingsStream::{run,read_frame}
// @bound a valid SETTINGS frame followed by every sequence of two events over the 11-symbol alphabet (121 sequences), then the connection goes away
// @oracle after SETTINGS only GREASE is tolerated (any number); a second SETTINGS, DATA, HEADERS => H3_FRAME_UNEXPECTED; FIN/reset => H3_CLOSED_CRITICAL_STREAM; connection lost => NotConnected
// @assume as d_remote_settings_first
// @outside what Worker::run_impl does with the returned error besides closing with its code (d_worker_close_code)
#[kani::proof]
#[kani::unwind(5)]
fn d_remote_settings_after() {
    let s1: u8 = kani::any();
    let s2: u8 = kani::any();
    kani::assume(s1 < 11 && s2 < 11);
    remote_run([ev(0), ev(s1), ev(s2)], [0, s1, s2], 3);
}

// @h props=C16,C12 tier=quick t=3000 mem=20 sub=local-settings
// @fn wtransport/src/driver/streams/settings.rs LocalSettingsStream::{empty,set_stream,send_settings,run} (re-hosted); wtransport-proto/src/settings.rs SettingsBuilder + Settings::generate_frame (mirror); wtransport-proto/src/frame.rs Frame::write
// @bound the one SETTINGS frame the endpoint emits; write outcome ok / not-connected / stopped; stopped() outcome any of the four classes with any code
// @oracle bytes on the control stream = exactly one frame of type 0x04 whose payload the reference decoder reads as the set {0x01:0, 0x07:0, 0x08:1, 0x33:1, 0x2b603742:1, 0xc671706a:1}, no duplicates (RFC 9114 §7.2.4, RFC 9204 §5, RFC 9220, RFC 9297, WT draft); write errors: not connected => NotConnected, stopped => H3_CLOSED_CRITICAL_STREAM; our control stream being stopped/closed => H3_CLOSED_CRITICAL_STREAM
// @assume recording StreamUniLocalH3 model; model map iteration order (insertion order) stands for HashMap's arbitrary order: the oracle is order-insensitive
#[kani::proof]
#[kani::unwind(14)]
fn d_local_settings() {
    let wr: u8 = kani::any();
    kani::assume(wr < 3);
    let sr: u8 = kani::any();
    kani::assume(sr < 4);
    let scode: u64 = kani::any();
    kani::assume(scode < (1 << 62));
    let mut ls = LocalSettingsStream::empty();
    let log = std::rc::Rc::new(std::cell::RefCell::new(WriteLog { written: [0; 64], nwritten: 0, frames: 0 }));
    ls.set_stream(StreamUniLocalH3 {
        log: log.clone(),
        write_result: wr,
        stopped_result: sr,
        stopped_code: VarInt::try_from_u64(scode).unwrap(),
    });
    let r = poll_once(ls.send_settings()).unwrap();
    match (wr, &r) {
        (0, Ok(())) => {}
        (1, Err(DriverError::NotConnected)) => {}
        (2, Err(DriverError::Proto(e))) => assert!(e.to_code().into_inner() == 0x104),
        _ => assert!(false, "send_settings outcome misattributed"),
    }
    let stopped = poll_once(ls.run()).unwrap();
    match (sr, &stopped) {
        (0, DriverError::NotConnected) => {}
        (_, DriverError::Proto(e)) => assert!(sr != 0 && e.to_code().into_inner() == 0x104, "closed local control stream must be H3_CLOSED_CRITICAL_STREAM"),
        _ => assert!(false, "local control stream termination misattributed"),
    }
    let st = log.borrow();
    if wr == 0 {
        assert!(st.frames == 1, "not exactly one SETTINGS frame");
        let b = &st.written[..st.nwritten];
        assert!(b[0] == 0x04, "first frame on the control stream is not SETTINGS");
        let (plen, n1) = ref_varint_get(&b[1..]).unwrap();
        assert!(1 + n1 + plen as usize == st.nwritten, "frame length does not match the bytes written");
        let p = &b[1 + n1..];
        let mut seen = [false; 7];
        let mut pos = 0;
        while pos < p.len() {
            let (id, a) = ref_varint_get(&p[pos..]).expect("truncated setting");
            let (val, c) = ref_varint_get(&p[pos + a..]).expect("truncated setting");
            pos += a + c;
            match ref_setting_class(id) {
                IdClass::Known(k) => {
                    assert!(!seen[k as usize], "duplicate setting emitted");
                    seen[k as usize] = true;
                    let want = match k {
                        0 | 2 => 0,
                        _ => 1,
                    };
                    assert!(val == want, "advertised setting value differs from the WebTransport profile");
                }
                _ => assert!(false, "reserved / unknown setting emitted"),
            }
        }
        assert!(seen[0] && seen[2] && seen[3] && seen[4] && seen[5] && seen[6] && !seen[1], "advertised settings are not exactly: QPACK cap 0, blocked 0, extended CONNECT, H3 datagram, WebTransport, max sessions 1");
        kani::cover!(true, "settings emitted");
    } else {
        assert!(st.nwritten == 0);
        kani::cover!(wr == 2, "stopped");
    }
    drop(st);
    core::mem::forget(ls);
}

// @h props=C12,C16 tier=quick t=1500 expect=fail sub=twin
// @fn wtransport/src/driver/streams/settings.rs RemoteSettingsStream::run
// @bound twin: claims a leading DATA frame is tolerated; must be refuted
#[kani::proof]
#[kani::unwind(4)]
fn d_settings_twin_must_fail() {
    let mut rs = RemoteSettingsStream::empty();
    rs.set_stream(StreamUniRemoteH3::control(ControlScript { events: [ev(4), ev(9), ev(9)], n: 2, reads: 0 }));
    let out = poll_once(rs.run()).unwrap();
    assert!(matches!(out, DriverError::NotConnected), "twin: wrong oracle");
    core::mem::forget(out);
}
