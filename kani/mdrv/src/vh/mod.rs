//! harnesses over the driver-unit mirror
mod connect_h;
mod settings_h;
mod slices_h;
mod worker_h;
mod accept_h;
mod control_h;

use std::future::Future;
use std::task::{Context, Poll, Waker};

pub fn poll_once<F: Future>(fut: F) -> Option<F::Output> {
    let mut fut = std::pin::pin!(fut);
    let mut cx = Context::from_waker(Waker::noop());
    match fut.as_mut().poll(&mut cx) {
        Poll::Ready(v) => Some(v),
        Poll::Pending => None,
    }
}

pub use wtransport_proto::vh::util::{utf8_model_ok, utf8_validation_stub};
