//! C05: the control-plane readers under the worker's select loop. `Worker::run_impl` creates the
//! `run_control_streams(..)` future inside `loop { tokio::select! { .. } }`: whenever another branch of that select
//! completes (a datagram, a new stream, a ready session ..) the future is dropped and a fresh one is created in the
//! next iteration. `run_control_streams` is itself a `tokio::select!` over the five control-plane `run()` futures,
//! created in place. The harness plays both selects around the read future that `RemoteSettingsStream::run` awaits - the real
//! wtransport-proto typestate reader `read_frame_async` - over a byte-level model receive stream. The generator (tools/mirror.py) refuses to build this module unless run_impl / run_control_streams
//! still have that shape. (Executing the sliced select through a model of `tokio::select!` was tried: a generator
//! stored inside another generator loses CBMC's constant propagation of its state field and every branch body after
//! `pending().await` gets explored - minutes for five empty streams; so the select is played by the harness;
//! with `RemoteSettingsStream::run` + `Settings::with_frame` on top the queries needed 10-17 GB and > 20 min each, so
//! the harness polls `Frame::read_async` directly (even the typestate reader on top of it, polled twice, needed > 20 GB) and the generator checks that the layers in between are delegations.)
use super::*;
use crate::driver::streams::uniremote::{SegCtl, SegReader, Wire};
use crate::driver::DriverError;
use std::cell::Cell;
use std::pin::Pin;
use wtransport_proto::stream::uniremote::MaybeUpgradeH3;
use wtransport_proto::stream::Stream;

fn poll_pin<F: Future + ?Sized>(fut: Pin<&mut F>) -> Poll<F::Output> {
    let mut cx = Context::from_waker(Waker::noop());
    fut.poll(&mut cx)
}

/// the proto typestate of a peer-opened control stream whose type byte has been read
fn control_proto() -> wtransport_proto::stream::uniremote::StreamUniRemoteH3 {
    let mut hdr: &[u8] = &[0x00];
    match Stream::accept_uni().upgrade(&mut hdr) {
        Ok(MaybeUpgradeH3::H3(s)) => s,
        _ => unreachable!(),
    }
}

/// SETTINGS frame `04 02 08 vv`: ENABLE_CONNECT_PROTOCOL = vv (type, length, id, value: one byte each)
fn settings_wire(value: u8) -> [u8; 8] {
    [0x04, 0x02, 0x08, value, 0, 0, 0, 0]
}

fn torn_settings(cut: usize, interleaved: bool) {
    let value: u8 = kani::any();
    kani::assume(value < 0x40);
    let ctl = SegCtl { avail: Cell::new(cut), off: Cell::new(0) };
    // what `driver::streams::uniremote::StreamUniRemoteH3` holds: the proto typestate and the QUIC receive stream;
    // its `read_frame` is `self.proto.read_frame_async(&mut self.stream).await` (awaited by RemoteSettingsStream::run),
    // which in turn is `loop { match Frame::read_async(reader).await { .. } }`: the harness polls that innermost future
    let mut w = Wire { proto: control_proto(), reader: SegReader { data: settings_wire(value), len: 4, ctl: &ctl } };
    let mut out = None;
    if interleaved {
        // iteration k of run_impl's loop: the first `cut` bytes of the frame have arrived; the control branch
        // suspends; another branch of the outer select completes -> the read future is dropped with the select
        {
            let mut fut = std::pin::pin!(wtransport_proto::frame::Frame::read_async(&mut w.reader));
            if let Poll::Ready(r) = poll_pin(fut.as_mut()) {
                out = Some(r.map(|_| (false, false)));
            }
        }
        assert!(out.is_none(), "a frame or an error from an incomplete frame");
        // the rest of the frame arrives
        ctl.avail.set(4);
        // iteration k+1: a fresh future
        let mut fut = std::pin::pin!(wtransport_proto::frame::Frame::read_async(&mut w.reader));
        if let Poll::Ready(r) = poll_pin(fut.as_mut()) {
            out = Some(r.map(|f| (matches!(f.kind(), wtransport_proto::frame::FrameKind::Settings), f.payload().len() == 2 && f.payload()[0] == 0x08 && f.payload()[1] == value)));
        }
    } else {
        // segmentation only: the same future is polled again when the rest arrives
        let mut fut = std::pin::pin!(wtransport_proto::frame::Frame::read_async(&mut w.reader));
        if let Poll::Ready(_) = poll_pin(fut.as_mut()) {
            panic!("a frame or an error from an incomplete frame");
        }
        ctl.avail.set(4);
        if let Poll::Ready(r) = poll_pin(fut.as_mut()) {
            out = Some(r.map(|f| (matches!(f.kind(), wtransport_proto::frame::FrameKind::Settings), f.payload().len() == 2 && f.payload()[0] == 0x08 && f.payload()[1] == value)));
        }
    }
    match out {
        Some(Ok((is_settings, same_payload))) => assert!(is_settings && same_payload, "the peer's SETTINGS frame was read as a different frame"),
        Some(Err(_)) => panic!("a valid SETTINGS frame ended the control stream with an error"),
        None => panic!("the complete SETTINGS frame has arrived but no frame is delivered (bytes of it were lost)"),
    }
    assert!(ctl.off.get() == 4, "bytes of the SETTINGS frame were not consumed");
    kani::cover!(value == 1, "SETTINGS frame delivered");
}

macro_rules! torn {
    ($name:ident, $cut:literal, $inter:literal) => {
        #[kani::proof]
        #[kani::unwind(8)]
        fn $name() {
            torn_settings($cut, $inter)
        }
    };
}

// @h props=C05 tier=quick t=1800 mem=20 sub=settings-segmentation-only
// @fn wtransport/src/driver/mod.rs worker::Worker::{run_impl,run_control_streams} (shape check by the generator; both selects are played by the harness); wtransport/src/driver/streams/settings.rs RemoteSettingsStream::{run,read_frame} and driver/streams/mod.rs StreamUniRemoteH3::read_frame (shape check: plain `.await` delegations down to the proto reader, no buffering in between); wtransport-proto/src/stream.rs StreamUniRemoteH3::read_frame_async (shape check: `Frame::read_async(reader).await` in a loop); wtransport-proto/src/frame.rs Frame::read_async; wtransport-proto/src/bytes.rs GetVarint GetBuffer
// @bound the peer's SETTINGS frame 04 02 08 vv (every value vv < 0x40) arrives in two pieces, cut after 1 byte(s); the SAME read future is polled before and after the second piece (no other worker event in between); cuts after 2 and 3 bytes of the *resumed* variant exceeded 40 GB (the payload vector is allocated in the first poll and the resumed state is not constant-folded); resumption of GetVarint / GetBuffer from any state is decided inductively under C15 (L1)
// @oracle once all four bytes have arrived the reader delivers exactly the SETTINGS frame (kind, payload 08 vv), no error, all four bytes consumed
// @assume tokio::select! drops its losing branch futures (documented behaviour; played by the harness), MODEL SegReader (one byte per read, Pending when nothing has arrived), the layers between run_control_streams and the proto reader add no state (shape checks)
// @outside other frames and cut patterns; the outer select of run_impl (played by the harness)
// @unwindset GetBuffer:3 GetVarint:3
torn!(k_settings_segmented_cut1, 1, false);

// @h props=C05 tier=quick t=1800 mem=20 sub=settings-torn-by-interleaved-event
// @fn wtransport/src/driver/mod.rs worker::Worker::{run_impl,run_control_streams} (shape check by the generator: run_control_streams(..) is created inside `loop { tokio::select! {..} }` and is itself a select! over the five run() futures); wtransport/src/driver/streams/settings.rs RemoteSettingsStream::{run,read_frame} and driver/streams/mod.rs StreamUniRemoteH3::read_frame (shape check: plain `.await` delegations down to the proto reader, no buffering in between); wtransport-proto/src/stream.rs StreamUniRemoteH3::read_frame_async (shape check: `Frame::read_async(reader).await` in a loop); wtransport-proto/src/frame.rs Frame::read_async; wtransport-proto/src/bytes.rs GetVarint GetBuffer
// @bound as k_settings_segmented_cut1 (cut after 1 byte), but between the two pieces another branch of run_impl's select completes: the run_control_streams future - and with it RemoteSettingsStream::run and the proto read future it awaits - is dropped and a fresh one is created, as that loop does on every iteration
// @oracle as k_settings_segmented_cut1: the outcome must not depend on the interleaved event
// @assume as k_settings_segmented_cut1
// @outside as k_settings_segmented_cut1
// @unwindset GetBuffer:3 GetVarint:3
torn!(k_settings_torn_cut1, 1, true);

// @h props=C05 tier=quick t=1800 mem=20 sub=settings-torn-by-interleaved-event
// @fn as k_settings_torn_cut1
// @bound as k_settings_torn_cut1, cut after 2 bytes
// @oracle as k_settings_torn_cut1
// @assume as k_settings_segmented_cut1
// @outside as k_settings_segmented_cut1
// @unwindset GetBuffer:3 GetVarint:3
torn!(k_settings_torn_cut2, 2, true);

// @h props=C05 tier=quick t=1800 mem=20 sub=settings-torn-by-interleaved-event
// @fn as k_settings_torn_cut1
// @bound as k_settings_torn_cut1, cut after 3 bytes
// @oracle as k_settings_torn_cut1
// @assume as k_settings_segmented_cut1
// @outside as k_settings_segmented_cut1
// @unwindset GetBuffer:3 GetVarint:3
torn!(k_settings_torn_cut3, 3, true);

// @h props=C05 tier=quick t=900 expect=fail sub=twin
// @fn Frame::read_async
// @oracle deliberately wrong: claims a complete SETTINGS frame delivered in one piece is not published
#[kani::proof]
#[kani::unwind(8)]
fn k_control_twin_must_fail() {
    let ctl = SegCtl { avail: Cell::new(4), off: Cell::new(0) };
    let mut w = Wire { proto: control_proto(), reader: SegReader { data: settings_wire(1), len: 4, ctl: &ctl } };
    let r = poll_once(wtransport_proto::frame::Frame::read_async(&mut w.reader));
    assert!(r.is_none(), "twin: wrong oracle");
}
