//! slices of the wtransport crate: max_datagram_size (C03), Worker::run close-code match (C04), max_idle_timeout (C20)
use crate::datagram::Datagram;
use crate::driver::DriverError;
use crate::error::ApplicationClose;
use crate::slices::*;
use crate::{SessionId, StreamId, VarInt};
use std::cell::Cell;
use std::time::Duration;
use wtransport_proto::error::ErrorCode;

fn any_session_id() -> SessionId {
    let q: u64 = kani::any();
    kani::assume(q <= (1u64 << 60) - 1);
    SessionId::try_from_session_stream(StreamId::new(VarInt::try_from_u64(q << 2).unwrap())).unwrap()
}

fn model_conn(max: Option<usize>) -> ModelQuicConnection {
    ModelQuicConnection { max_datagram_size: max, closed_with: Cell::new(None), close_calls: Cell::new(0) }
}

// @h props=C03 tier=quick t=900 sub=max-datagram-size
// @fn wtransport/src/connection.rs Connection::max_datagram_size (sliced); wtransport/src/datagram.rs Datagram::header_size (re-hosted)
// @bound every session id; quinn's limit = None or any usize (quinn-proto computes it with saturating_sub, so 0 and every small value are reachable when the peer advertises a small max_datagram_frame_size)
// @oracle never panics / wraps; Some(m) => m + header_size(sid) <= quic limit (a payload of m bytes fits); None <=> quinn reports None or the limit does not even hold the quarter-stream-id prefix
// @assume ModelQuicConnection::max_datagram_size returns an arbitrary Option<usize>
// @outside send_datagram's match on quinn's SendDatagramError; the live value of the limit
#[kani::proof]
fn d_max_datagram_size() {
    let sid = any_session_id();
    let has: bool = kani::any();
    let lim: usize = kani::any();
    let conn = Connection { quic_connection: model_conn(if has { Some(lim) } else { None }), session_id: sid };
    let hs = Datagram::header_size(sid);
    assert!(hs == 1 || hs == 2 || hs == 4 || hs == 8);
    match conn.max_datagram_size() {
        Some(m) => {
            assert!(has, "a maximum invented although the peer does not support datagrams");
            assert!(m <= lim && lim - m == hs, "advertised maximum + header does not equal the QUIC limit (nonsensical value)");
            kani::cover!(m == 0, "limit holds exactly the prefix");
            kani::cover!(hs == 8 && m > 0, "8-byte quarter stream id");
        }
        None => {
            assert!(!has || lim < hs, "maximum withheld although a payload fits");
            kani::cover!(has && lim + 1 == hs, "limit one byte smaller than the prefix");
            kani::cover!(!has, "unsupported by peer");
        }
    }
}

// @h props=C04,C12,C16 tier=quick t=900 sub=worker-close-code
// @fn wtransport/src/driver/mod.rs Worker::run (close-code match, sliced); wtransport/src/driver/utils.rs varint_w2q (sliced); wtransport-proto/src/error.rs ErrorCode::to_code
// @bound all three DriverError variants, all 15 protocol error codes, arbitrary 62-bit application close code
// @oracle peer's application close => QUIC connection closed with H3_NO_ERROR (0x100) and empty reason; local protocol error c => closed with the registered value of c; NotConnected => no close call; exactly one close otherwise
// @assume ModelQuicConnection::close records code and reason length
#[kani::proof]
#[kani::unwind(4)]
fn d_worker_close_code() {
    let which: u8 = kani::any();
    kani::assume(which < 17);
    let codes = [
        (ErrorCode::Datagram, 0x33u64),
        (ErrorCode::NoError, 0x100),
        (ErrorCode::StreamCreation, 0x103),
        (ErrorCode::ClosedCriticalStream, 0x104),
        (ErrorCode::FrameUnexpected, 0x105),
        (ErrorCode::Frame, 0x106),
        (ErrorCode::ExcessiveLoad, 0x107),
        (ErrorCode::Id, 0x108),
        (ErrorCode::Settings, 0x109),
        (ErrorCode::MissingSettings, 0x10a),
        (ErrorCode::RequestRejected, 0x10b),
        (ErrorCode::Message, 0x10e),
        (ErrorCode::Decompression, 0x200),
        (ErrorCode::BufferedStreamRejected, 0x3994_bd84),
        (ErrorCode::SessionGone, 0x170d_7b68),
    ];
    let w = Worker { quic_connection: model_conn(None) };
    if which < 15 {
        let (c, v) = codes[which as usize];
        w.close_for(DriverError::Proto(c));
        assert!(w.quic_connection.close_calls.get() == 1, "protocol error did not close the connection exactly once");
        assert!(w.quic_connection.closed_with.get() == Some((v, 0)), "connection closed with a code different from the registered value");
        kani::cover!(which == 9, "missing settings");
    } else if which == 15 {
        let code: u64 = kani::any();
        kani::assume(code < (1 << 62));
        let close = ApplicationClose::new(VarInt::try_from_u64(code).unwrap(), Box::new([]));
        w.close_for(DriverError::ApplicationClosed(close));
        assert!(w.quic_connection.close_calls.get() == 1);
        assert!(w.quic_connection.closed_with.get() == Some((0x100, 0)), "session closed by the peer must end the connection with H3_NO_ERROR");
        kani::cover!(true, "application close");
    } else {
        w.close_for(DriverError::NotConnected);
        assert!(w.quic_connection.close_calls.get() == 0, "NotConnected must not close again");
        kani::cover!(true, "not connected");
    }
}

// @h props=C20 tier=quick t=900 sub=idle-timeout
// @fn wtransport/src/config.rs ServerConfigBuilder::max_idle_timeout ClientConfigBuilder::max_idle_timeout (sliced); quinn_proto::IdleTimeout::try_from (real)
// @bound None and every Duration (u64 seconds, nanoseconds < 10^9), server and client builder
// @oracle Ok => the transport config received exactly as_millis() (None => None); Err <=> as_millis() >= 2^62 and then nothing was applied
// @assume ModelTransportConfig records the value it is given
#[kani::proof]
fn d_idle_timeout() {
    let some: bool = kani::any();
    let secs: u64 = kani::any();
    let nanos: u32 = kani::any();
    kani::assume(nanos < 1_000_000_000);
    let d = Duration::new(secs, nanos);
    let arg = if some { Some(d) } else { None };
    let ms: u128 = secs as u128 * 1000 + (nanos / 1_000_000) as u128;
    let server: bool = kani::any();
    let st = BuilderState { transport_config: ModelTransportConfig { idle: None } };
    let recorded: Result<Option<Option<quinn::IdleTimeout>>, ()> = if server {
        ServerBuilder(st).max_idle_timeout(arg).map(|b| b.0.transport_config.idle).map_err(|_| ())
    } else {
        ClientBuilder(st).max_idle_timeout(arg).map(|b| b.0.transport_config.idle).map_err(|_| ())
    };
    match recorded {
        Ok(rec) => {
            if some {
                assert!(ms < (1u128 << 62), "unrepresentable idle timeout accepted (silently altered)");
                let want = quinn::IdleTimeout::from(quinn::VarInt::from_u64(ms as u64).unwrap());
                assert!(rec == Some(Some(want)), "idle timeout applied differs from the requested one");
                kani::cover!(ms == (1u128 << 62) - 1, "largest representable timeout");
            } else {
                assert!(rec == Some(None), "None (infinite) not applied as such");
                kani::cover!(true, "infinite timeout");
            }
        }
        Err(()) => {
            assert!(some && ms >= (1u128 << 62), "representable idle timeout refused");
            kani::cover!(ms == (1u128 << 62), "smallest unrepresentable timeout refused");
        }
    }
}

// @h props=C03,C04,C20 tier=quick t=900 expect=fail sub=twin
// @fn wtransport/src/connection.rs Connection::max_datagram_size (sliced)
// @bound twin: claims the advertised maximum is always None; must be refuted
#[kani::proof]
fn d_slices_twin_must_fail() {
    let lim: usize = kani::any();
    let conn = Connection { quic_connection: model_conn(Some(lim)), session_id: any_session_id() };
    assert!(conn.max_datagram_size().is_none(), "twin: wrong oracle");
}
