//! Worker::handle_uni_h3_stream / handle_bi_h3_stream (sliced from driver/mod.rs) and the QPACK stream runners
//! (driver/streams/qpack.rs re-hosted): C12 duplicated / closed critical streams, request admission on its own
//! stream (C18), reaction codes
use super::*;
use crate::driver::streams::biremote::StreamBiRemoteH3;
use crate::driver::streams::models::{CEv, ControlScript};
use crate::driver::streams::qpack::{RemoteQPackDecStream, RemoteQPackEncStream};
use crate::driver::streams::settings::RemoteSettingsStream;
use crate::driver::streams::uniremote::{ModelRecv, StreamUniRemoteH3};
use crate::driver::DriverError;
use crate::slices::{ModelSessionQueue, WorkerH};
use crate::VarInt;
use std::borrow::Cow;
use std::cell::Cell;
use std::rc::Rc;
use wtransport_proto::frame::Frame;
use wtransport_proto::headers::Headers;

fn uni(kind: u8) -> StreamUniRemoteH3 {
    StreamUniRemoteH3 {
        script: ControlScript { events: [CEv::NotConnected; 3], n: 0, reads: 0 },
        kind,
        recv: ModelRecv { oks: 0, end: 1, reset_code: VarInt::from_u32(0), reads: 0 },
    }
}

fn worker(outcome: u8) -> WorkerH {
    WorkerH {
        remote_settings_stream: RemoteSettingsStream::empty(),
        remote_qpack_enc_stream: RemoteQPackEncStream::empty(),
        remote_qpack_dec_stream: RemoteQPackDecStream::empty(),
        ready_sessions: ModelSessionQueue { outcome, accepted: Cell::new(0) },
    }
}

// @h props=C12,C13 tier=quick t=2400 mem=20 sub=handle-uni-h3-stream
// @fn wtransport/src/driver/mod.rs Worker::handle_uni_h3_stream (sliced); wtransport/src/driver/streams/settings.rs RemoteSettingsStream::{is_empty,set_stream}; wtransport/src/driver/streams/qpack.rs RemoteQPack{Enc,Dec}Stream::{is_empty,set_stream} (re-hosted)
// @bound every pre-state of the three critical-stream slots (each empty or taken) x every kind of the arriving stream (control, QPACK encoder, QPACK decoder, GREASE)
// @oracle RFC 9114 §6.2.1 / RFC 9204 §4.2: a second control / encoder / decoder stream => connection error H3_STREAM_CREATION_ERROR and the slot keeps its first stream; a first one is stored; a GREASE stream is ignored (Ok, no slot touched)
// @assume model StreamUniRemoteH3 (kind scripted)
#[kani::proof]
#[kani::unwind(6)]
fn d_handle_uni_h3_stream() {
    let pre: [bool; 3] = kani::any();
    let kind: u8 = kani::any();
    kani::assume(kind < 4);
    let mut w = worker(0);
    if pre[0] {
        w.remote_settings_stream.set_stream(uni(0));
    }
    if pre[1] {
        w.remote_qpack_enc_stream.set_stream(uni(1));
    }
    if pre[2] {
        w.remote_qpack_dec_stream.set_stream(uni(2));
    }
    let r = w.handle_uni_h3_stream(uni(kind));
    let taken_after = [!w.remote_settings_stream.is_empty(), !w.remote_qpack_enc_stream.is_empty(), !w.remote_qpack_dec_stream.is_empty()];
    if kind == 3 {
        assert!(r.is_ok(), "GREASE stream must be ignored");
        assert!(taken_after == pre, "GREASE stream changed a critical-stream slot");
        kani::cover!(pre[0], "grease with control present");
    } else {
        let k = kind as usize;
        if pre[k] {
            match &r {
                Err(DriverError::Proto(e)) => assert!(e.to_code().into_inner() == 0x103, "duplicate critical stream must be H3_STREAM_CREATION_ERROR"),
                _ => assert!(false, "duplicate critical stream accepted"),
            }
            assert!(taken_after == pre);
            kani::cover!(k == 2, "duplicate decoder stream");
        } else {
            assert!(r.is_ok(), "first critical stream refused");
            let mut want = pre;
            want[k] = true;
            assert!(taken_after == want, "critical stream stored in the wrong slot");
            kani::cover!(k == 0, "first control stream");
        }
    }
    core::mem::forget(r);
    core::mem::forget(w);
}

// @h props=C12 tier=quick t=2400 mem=20 sub=qpack-stream-run
// @fn wtransport/src/driver/streams/qpack.rs RemoteQPackEncStream::run RemoteQPackDecStream::run (re-hosted)
// @bound 0..=2 successful reads of the (ignored) QPACK instruction bytes followed by each terminating outcome (finished, connection lost, reset with any code, QUIC protocol error); encoder and decoder stream
// @oracle RFC 9204 §4.2: closure of a QPACK stream (FIN, reset, protocol error) => H3_CLOSED_CRITICAL_STREAM; connection lost => NotConnected; instruction bytes never cause an error
// @assume ModelRecv::read_exact scripted
#[kani::proof]
#[kani::unwind(6)]
fn d_qpack_stream_run() {
    let oks: usize = kani::any();
    kani::assume(oks <= 2);
    let end: u8 = kani::any();
    kani::assume(end < 4);
    let code: u64 = kani::any();
    kani::assume(code < (1 << 62));
    let enc: bool = kani::any();
    let mut s = uni(if enc { 1 } else { 2 });
    s.recv = ModelRecv { oks, end, reset_code: VarInt::try_from_u64(code).unwrap(), reads: 0 };
    let out = if enc {
        let mut q = RemoteQPackEncStream::empty();
        q.set_stream(s);
        let o = poll_once(q.run()).unwrap();
        core::mem::forget(q);
        o
    } else {
        let mut q = RemoteQPackDecStream::empty();
        q.set_stream(s);
        let o = poll_once(q.run()).unwrap();
        core::mem::forget(q);
        o
    };
    match (&out, end) {
        (DriverError::NotConnected, 1) => {
            kani::cover!(oks == 2, "connection lost after two reads");
        }
        (DriverError::Proto(e), 0) | (DriverError::Proto(e), 2) | (DriverError::Proto(e), 3) => {
            assert!(e.to_code().into_inner() == 0x104, "closed QPACK stream must be H3_CLOSED_CRITICAL_STREAM");
            kani::cover!(end == 2 && !enc, "decoder stream reset");
        }
        _ => assert!(false, "QPACK stream termination misattributed"),
    }
    core::mem::forget(out);
}

fn bi() -> (StreamBiRemoteH3, Rc<Cell<Option<u64>>>) {
    let stop = Rc::new(Cell::new(None));
    (StreamBiRemoteH3 { stop_log: stop.clone(), reset_log: Rc::new(Cell::new(None)) }, stop)
}

fn handle_bi_non_headers(k: u8) {
    let p: [u8; 2] = kani::any();
    let payload = p[..2].to_vec();
    let f: Frame<'static> = match k {
        0 => Frame::new_data(Cow::Owned(payload)),
        1 => Frame::new_settings(Cow::Owned(payload)),
        _ => Frame::new_exercise(VarInt::from_u32(0x21), Cow::Owned(payload)),
    };
    let mut w = worker(0);
    let (s, stop) = bi();
    let r = w.handle_bi_h3_stream(s, f);
    match (&r, k) {
        (Err(DriverError::Proto(e)), 0) | (Err(DriverError::Proto(e)), 1) => {
            assert!(e.to_code().into_inner() == 0x105, "DATA / SETTINGS first on a request stream must be H3_FRAME_UNEXPECTED");
            kani::cover!(true, "refused");
        }
        (Ok(()), 2) => {
            kani::cover!(true, "grease ignored");
        }
        _ => assert!(false, "first-frame rule on request streams violated"),
    }
    assert!(stop.get().is_none() && w.ready_sessions.accepted.get() == 0);
    core::mem::forget(r);
    core::mem::forget(w);
}

macro_rules! handle_bi_nh {
    ($name:ident, $k:literal) => {
        #[kani::proof]
        #[kani::unwind(6)]
        fn $name() {
            handle_bi_non_headers($k)
        }
    };
}

// @h props=C12,C18 tier=quick t=2400 mem=20 sub=handle-bi-non-headers covers=any
// @fn wtransport/src/driver/mod.rs Worker::handle_bi_h3_stream (sliced)
// @bound first frame on a peer-opened request stream = DATA with 2 symbolic payload bytes (frame kind concrete per instance: a symbolic kind makes CBMC explore the whole QPACK decoder)
// @oracle RFC 9114 §4.1: DATA before HEADERS => connection error H3_FRAME_UNEXPECTED; nothing queued, stream not stopped
// @assume model StreamBiRemoteH3 / session queue
handle_bi_nh!(d_handle_bi_first_data, 0);

// @h props=C12,C18 tier=quick t=2400 mem=20 sub=handle-bi-non-headers covers=any
// @fn wtransport/src/driver/mod.rs Worker::handle_bi_h3_stream (sliced)
// @bound first frame = SETTINGS with 2 symbolic payload bytes
// @oracle RFC 9114 §7.2.4: SETTINGS on a request stream => connection error H3_FRAME_UNEXPECTED
// @assume model StreamBiRemoteH3 / session queue
handle_bi_nh!(d_handle_bi_first_settings, 1);

// @h props=C12,C13 tier=quick t=2400 mem=20 sub=handle-bi-non-headers covers=any
// @fn wtransport/src/driver/mod.rs Worker::handle_bi_h3_stream (sliced)
// @bound first frame = GREASE with 2 symbolic payload bytes
// @oracle ignored: Ok, nothing queued, stream not stopped
// @assume model StreamBiRemoteH3 / session queue
handle_bi_nh!(d_handle_bi_first_grease, 2);

/// MODEL of `Headers::with_frame` for the request handler harnesses (bound by #[kani::stub]): the QPACK field-section
/// decoder is cut out here (whole-function `Decoder::decode` does not fit the solver; its kernels are decided under
/// C11/C14/C16). The first payload byte selects the decoded map; one insert call site per literal.
pub fn model_headers_with_frame(frame: &Frame) -> Result<Headers, wtransport_proto::error::ErrorCode> {
    let shape = frame.payload()[0];
    let mut h: Headers = core::iter::empty::<(&str, &str)>().collect();
    match shape {
        // 0: well-formed extended CONNECT
        0 => {
            h.insert(":method", "CONNECT");
            h.insert(":scheme", "https");
            h.insert(":protocol", "webtransport");
            h.insert(":authority", "a");
            h.insert(":path", "/");
        }
        // 1: ordinary GET request
        1 => {
            h.insert(":method", "GET");
            h.insert(":scheme", "https");
            h.insert(":authority", "a");
            h.insert(":path", "/");
        }
        // 2: CONNECT with a different protocol
        2 => {
            h.insert(":method", "CONNECT");
            h.insert(":scheme", "https");
            h.insert(":protocol", "websocket");
            h.insert(":authority", "a");
            h.insert(":path", "/");
        }
        // 3: extended CONNECT without :path
        3 => {
            h.insert(":method", "CONNECT");
            h.insert(":scheme", "https");
            h.insert(":protocol", "webtransport");
            h.insert(":authority", "a");
        }
        // 4: plain-http scheme
        4 => {
            h.insert(":method", "CONNECT");
            h.insert(":scheme", "http");
            h.insert(":protocol", "webtransport");
            h.insert(":authority", "a");
            h.insert(":path", "/");
        }
        // anything else: the decoder failed
        _ => return Err(wtransport_proto::error::ErrorCode::Decompression),
    }
    Ok(h)
}

fn request_frame(shape: u8) -> Frame<'static> {
    Frame::new_headers(Cow::Owned([shape].to_vec()))
}

macro_rules! handle_bi_request {
    ($name:ident, $shape:literal) => {
        #[kani::proof]
        #[kani::unwind(14)]
        #[kani::stub(Headers::with_frame, model_headers_with_frame)]
        fn $name() {
            let outcome: u8 = kani::any();
            kani::assume(outcome < 3);
            let mut w = worker(outcome);
            let (s, stop) = bi();
            let r = w.handle_bi_h3_stream(s, request_frame($shape));
            let shape: u8 = $shape;
            if shape == 5 {
                match &r {
                    Err(DriverError::Proto(e)) => assert!(e.to_code().into_inner() == 0x200, "undecodable field section must be QPACK_DECOMPRESSION_FAILED"),
                    _ => assert!(false, "undecodable field section not reported as a connection error"),
                }
                assert!(stop.get().is_none() && w.ready_sessions.accepted.get() == 0);
                kani::cover!(true, "decompression failed");
            } else if shape == 0 {
                match (outcome, &r) {
                    (0, Ok(())) => {
                        assert!(w.ready_sessions.accepted.get() == 1 && stop.get().is_none(), "admitted request not handed to the application");
                        kani::cover!(true, "session request queued");
                    }
                    (1, Ok(())) => {
                        assert!(stop.get() == Some(0x10b) && w.ready_sessions.accepted.get() == 0, "request dropped on a full queue must be stopped with H3_REQUEST_REJECTED");
                        kani::cover!(true, "queue full");
                    }
                    (2, Err(DriverError::NotConnected)) => {
                        kani::cover!(true, "queue closed");
                    }
                    _ => assert!(false, "well-formed WebTransport request mishandled"),
                }
            } else {
                // refused on its own stream, connection kept (Ok), nothing reaches the application
                assert!(r.is_ok(), "a refused request must not close the connection");
                assert!(w.ready_sessions.accepted.get() == 0, "non-WebTransport request reached the application");
                let want = if shape == 1 { 0x10b } else { 0x10e };
                assert!(stop.get() == Some(want), "refusal code differs: non-CONNECT => H3_REQUEST_REJECTED, malformed CONNECT => H3_MESSAGE_ERROR");
                kani::cover!(true, "refused on its own stream");
            }
            core::mem::forget(r);
            core::mem::forget(w);
        }
    };
}

// @h props=C12,C18 tier=quick t=3000 mem=20 sub=handle-bi-request covers=any
// @fn wtransport/src/driver/mod.rs Worker::handle_bi_h3_stream (sliced); wtransport-proto/src/session.rs <SessionRequest as TryFrom<Headers>>::try_from (mirror); wtransport-proto/src/headers.rs Headers::{insert,get}
// @bound a well-formed extended CONNECT request (header map as decoded; the decoder itself is modelled); hand-off queue outcome: accepted / full / closed
// @oracle admitted => handed to the application exactly once; queue full => that stream stopped with H3_REQUEST_REJECTED, connection kept; queue closed => NotConnected
// @assume models: request stream, session queue, model map; Headers::with_frame (the QPACK decoder) replaced by a model returning the intended map (kani::stub) - the decoder is outside this harness
handle_bi_request!(d_handle_bi_request_connect, 0);

// @h props=C12,C18 tier=quick t=3000 mem=20 sub=handle-bi-request covers=any
// @fn wtransport/src/driver/mod.rs Worker::handle_bi_h3_stream (sliced)
// @bound an ordinary GET request; any queue state
// @oracle refused on its own stream with H3_REQUEST_REJECTED (0x10b); connection kept; never reaches the application
// @assume as d_handle_bi_request_connect
handle_bi_request!(d_handle_bi_request_get, 1);

// @h props=C12,C18 tier=quick t=3000 mem=20 sub=handle-bi-request covers=any
// @fn wtransport/src/driver/mod.rs Worker::handle_bi_h3_stream (sliced)
// @bound CONNECT with :protocol = websocket; any queue state
// @oracle refused on its own stream with H3_MESSAGE_ERROR (0x10e); connection kept
// @assume as d_handle_bi_request_connect
handle_bi_request!(d_handle_bi_request_other_protocol, 2);

// @h props=C12,C18 tier=quick t=3000 mem=20 sub=handle-bi-request covers=any
// @fn wtransport/src/driver/mod.rs Worker::handle_bi_h3_stream (sliced)
// @bound extended CONNECT without :path; any queue state
// @oracle refused on its own stream with H3_MESSAGE_ERROR (0x10e); connection kept
// @assume as d_handle_bi_request_connect
handle_bi_request!(d_handle_bi_request_no_path, 3);

// @h props=C12,C18 tier=quick t=3000 mem=20 sub=handle-bi-request covers=any
// @fn wtransport/src/driver/mod.rs Worker::handle_bi_h3_stream (sliced)
// @bound extended CONNECT with :scheme = http; any queue state
// @oracle refused on its own stream with H3_MESSAGE_ERROR (0x10e); connection kept
// @assume as d_handle_bi_request_connect
handle_bi_request!(d_handle_bi_request_http_scheme, 4);

// @h props=C12,C11 tier=quick t=3000 mem=20 sub=handle-bi-request covers=any
// @fn wtransport/src/driver/mod.rs Worker::handle_bi_h3_stream (sliced)
// @bound HEADERS frame whose field section the decoder rejects; any queue state
// @oracle connection error QPACK_DECOMPRESSION_FAILED (0x200); nothing queued, stream not stopped
// @assume as d_handle_bi_request_connect
handle_bi_request!(d_handle_bi_request_undecodable, 5);
