//! ENVIRONMENT MODELS of the driver's QUIC-backed stream wrappers (`driver/streams/mod.rs`): the peer / quinn is
//! replaced by a script of events chosen by the harness (symbolic where the harness makes them so). Scripts end on
//! a concrete call counter (DESIGN §3 6b). Models never allocate except for frame payloads handed to the real code.
use crate::driver::streams::{ProtoReadError, ProtoWriteError};
use std::borrow::Cow;
use wtransport_proto::bytes::IoReadError;
use wtransport_proto::error::ErrorCode;
use wtransport_proto::frame::Frame;
use wtransport_proto::stream_header::StreamKind;
use wtransport_proto::varint::VarInt;

/// one scripted event of an incoming H3 stream. Frames are built BY THE HARNESS (payload allocated there with a
/// concrete size): allocating the payload inside the model under a merged length gave CBMC a merged pointer and a
/// spurious counterexample on a fully concrete input (DESIGN §11.2)
pub enum Ev {
    Frame(Frame<'static>),
    H3(ErrorCode),
    ImmediateFin,
    UnexpectedFin,
    Reset,
    NotConnected,
}

pub const SCRIPT_MAX: usize = 3;

pub struct Script {
    pub events: [Option<Ev>; SCRIPT_MAX],
    pub n: usize,
    pub reads: usize,
}

impl Script {
    pub fn next<'a>(&mut self) -> Result<Frame<'a>, ProtoReadError> {
        let i = self.reads;
        self.reads += 1;
        if i >= self.n {
            // script exhausted: the connection goes away (concrete end of every script)
            return Err(ProtoReadError::IO(IoReadError::NotConnected));
        }
        match self.events[i].take() {
            Some(Ev::Frame(f)) => Ok(f),
            Some(Ev::H3(code)) => Err(ProtoReadError::H3(code)),
            Some(Ev::ImmediateFin) => Err(ProtoReadError::IO(IoReadError::ImmediateFin)),
            Some(Ev::UnexpectedFin) => Err(ProtoReadError::IO(IoReadError::UnexpectedFin)),
            Some(Ev::Reset) => Err(ProtoReadError::IO(IoReadError::Reset)),
            Some(Ev::NotConnected) | None => Err(ProtoReadError::IO(IoReadError::NotConnected)),
        }
    }
}

/// one scripted event of the peer's control stream, with STATIC payloads (no allocation, no array copies): the
/// control-stream runner harnesses need nothing else and are an order of magnitude cheaper this way
#[derive(Clone, Copy, PartialEq, Eq)]
pub enum CEv {
    /// SETTINGS {0x33: 1}
    SettingsOk,
    /// SETTINGS {}
    SettingsEmpty,
    /// SETTINGS with the reserved identifier 0x02
    SettingsReserved,
    Grease,
    Data,
    Headers,
    ImmediateFin,
    UnexpectedFin,
    Reset,
    NotConnected,
    H3FrameUnexpected,
}

pub struct ControlScript {
    pub events: [CEv; SCRIPT_MAX],
    pub n: usize,
    pub reads: usize,
}

impl ControlScript {
    pub fn next<'a>(&mut self) -> Result<Frame<'a>, ProtoReadError> {
        let i = self.reads;
        self.reads += 1;
        if i >= self.n {
            return Err(ProtoReadError::IO(IoReadError::NotConnected));
        }
        const S_OK: &[u8] = &[0x33, 0x01];
        const S_RESERVED: &[u8] = &[0x02, 0x00];
        const EMPTY: &[u8] = &[];
        match self.events[i] {
            CEv::SettingsOk => Ok(Frame::new_settings(Cow::Borrowed(S_OK))),
            CEv::SettingsEmpty => Ok(Frame::new_settings(Cow::Borrowed(EMPTY))),
            CEv::SettingsReserved => Ok(Frame::new_settings(Cow::Borrowed(S_RESERVED))),
            CEv::Grease => Ok(Frame::new_exercise(VarInt::from_u32(0x21), Cow::Borrowed(EMPTY))),
            CEv::Data => Ok(Frame::new_data(Cow::Borrowed(EMPTY))),
            CEv::Headers => Ok(Frame::new_headers(Cow::Borrowed(EMPTY))),
            CEv::ImmediateFin => Err(ProtoReadError::IO(IoReadError::ImmediateFin)),
            CEv::UnexpectedFin => Err(ProtoReadError::IO(IoReadError::UnexpectedFin)),
            CEv::Reset => Err(ProtoReadError::IO(IoReadError::Reset)),
            CEv::NotConnected => Err(ProtoReadError::IO(IoReadError::NotConnected)),
            CEv::H3FrameUnexpected => Err(ProtoReadError::H3(ErrorCode::FrameUnexpected)),
        }
    }
}

pub mod session {
    use super::*;

    /// model of `driver::streams::session::StreamSession` (the established CONNECT stream)
    pub struct StreamSession {
        pub script: Script,
        /// shared with the harness: the code the driver reset the stream with
        pub reset_log: std::rc::Rc<std::cell::Cell<Option<u64>>>,
        /// shared with the harness: STOP_SENDING code (session requests discarded because the queue is full)
        pub stop_log: std::rc::Rc<std::cell::Cell<Option<u64>>>,
    }

    impl StreamSession {
        pub async fn read_frame<'a>(&mut self) -> Result<Frame<'a>, ProtoReadError> {
            self.script.next()
        }

        pub fn reset(&mut self, error_code: VarInt) {
            self.reset_log.set(Some(error_code.into_inner()));
        }

        pub fn stop(&mut self, error_code: VarInt) -> Result<(), super::biremote::AlreadyStop> {
            if self.stop_log.get().is_some() {
                return Err(super::biremote::AlreadyStop);
            }
            self.stop_log.set(Some(error_code.into_inner()));
            Ok(())
        }
    }
}

pub mod uniremote {
    use super::*;

    use crate::error::{StreamReadError, StreamReadExactError};

    /// model of `QuicRecvStream` as used by the QPACK stream runners: `read_exact` results are scripted:
    /// `oks` successful reads, then the terminating outcome `end` (0 FinishedEarly, 1 NotConnected, 2 Reset, 3 QuicProto)
    pub struct ModelRecv {
        pub oks: usize,
        pub end: u8,
        pub reset_code: VarInt,
        pub reads: usize,
    }

    impl ModelRecv {
        pub async fn read_exact(&mut self, buf: &mut [u8]) -> Result<(), StreamReadExactError> {
            let i = self.reads;
            self.reads += 1;
            if i < self.oks {
                return Ok(());
            }
            Err(match self.end {
                0 => StreamReadExactError::FinishedEarly(0),
                1 => StreamReadExactError::Read(StreamReadError::NotConnected),
                2 => StreamReadExactError::Read(StreamReadError::Reset(self.reset_code)),
                _ => StreamReadExactError::Read(StreamReadError::QuicProto),
            })
        }
    }

    /// byte-level receive side for the C05 harness: the first `avail` bytes of `data[..len]` have arrived (the
    /// harness raises `avail` through the shared `SegCtl`); one byte per poll_read, Pending when nothing more has
    /// arrived yet. Bytes handed out are gone - like a QUIC receive stream.
    pub struct SegCtl {
        pub avail: std::cell::Cell<usize>,
        pub off: std::cell::Cell<usize>,
    }
    pub struct SegReader {
        pub data: [u8; 8],
        pub len: usize,
        pub ctl: *const SegCtl,
    }
    impl wtransport_proto::bytes::AsyncRead for SegReader {
        fn poll_read(
            self: std::pin::Pin<&mut Self>,
            _cx: &mut std::task::Context<'_>,
            buf: &mut [u8],
        ) -> std::task::Poll<std::io::Result<usize>> {
            let this = self.get_mut();
            let ctl = unsafe { &*this.ctl };
            let off = ctl.off.get();
            if buf.is_empty() {
                return std::task::Poll::Ready(Ok(0));
            }
            if off < this.len && off < ctl.avail.get() {
                buf[0] = this.data[off];
                ctl.off.set(off + 1);
                std::task::Poll::Ready(Ok(1))
            } else {
                std::task::Poll::Pending
            }
        }
    }

    /// what the real `StreamUniRemoteH3` (driver/streams/mod.rs) holds: the proto typestate and the receive stream
    /// (used by the C05 harness as a plain holder)
    pub struct Wire {
        pub proto: wtransport_proto::stream::uniremote::StreamUniRemoteH3,
        pub reader: SegReader,
    }

    /// model of `driver::streams::uniremote::StreamUniRemoteH3` (a peer-opened unidirectional H3 stream): a frame-level
    /// script. (A byte-level "wire mode" delegating to the real proto reader was tried here and removed: its mere
    /// presence in `read_frame` dragged the proto async reader into every frame-level harness and exhausted memory.)
    pub struct StreamUniRemoteH3 {
        pub script: ControlScript,
        /// 0 Control, 1 QPackEncoder, 2 QPackDecoder, 3 GREASE (Exercise 0x21)
        pub kind: u8,
        pub recv: ModelRecv,
    }

    impl StreamUniRemoteH3 {
        pub fn control(script: ControlScript) -> Self {
            Self { script, kind: 0, recv: ModelRecv { oks: 0, end: 1, reset_code: VarInt::from_u32(0), reads: 0 } }
        }

        pub async fn read_frame<'a>(&mut self) -> Result<Frame<'a>, ProtoReadError> {
            self.script.next()
        }

        pub fn kind(&self) -> StreamKind {
            match self.kind {
                0 => StreamKind::Control,
                1 => StreamKind::QPackEncoder,
                2 => StreamKind::QPackDecoder,
                _ => StreamKind::Exercise(VarInt::from_u32(0x21)),
            }
        }

        pub fn stream_mut(&mut self) -> &mut ModelRecv {
            &mut self.recv
        }
    }
}

pub mod unilocal {
    use super::*;
    use crate::error::StreamWriteError;

    pub struct WriteLog {
        pub written: [u8; 64],
        pub nwritten: usize,
        pub frames: usize,
    }

    /// model of `driver::streams::unilocal::StreamUniLocalH3` (our control stream): records what is written
    /// through the real `Frame::write` into a log shared with the harness, fails as scripted
    pub struct StreamUniLocalH3 {
        pub log: std::rc::Rc<std::cell::RefCell<WriteLog>>,
        pub write_result: u8, // 0 ok, 1 NotConnected, 2 Stopped
        pub stopped_result: u8,
        pub stopped_code: VarInt,
    }

    impl StreamUniLocalH3 {
        pub async fn write_frame(&mut self, frame: Frame<'_>) -> Result<(), ProtoWriteError> {
            match self.write_result {
                1 => return Err(ProtoWriteError::NotConnected),
                2 => return Err(ProtoWriteError::Stopped),
                _ => {}
            }
            let mut log = self.log.borrow_mut();
            let at = log.nwritten;
            let mut w = wtransport_proto::bytes::BufferWriter::new(&mut log.written[at..]);
            frame.write(&mut w).expect("model control stream capacity (64 bytes)");
            let n = w.offset();
            log.nwritten += n;
            log.frames += 1;
            Ok(())
        }

        pub async fn stopped(&mut self) -> StreamWriteError {
            match self.stopped_result {
                0 => StreamWriteError::NotConnected,
                1 => StreamWriteError::Closed,
                2 => StreamWriteError::Stopped(self.stopped_code),
                _ => StreamWriteError::QuicProto,
            }
        }

        pub fn kind(&self) -> StreamKind {
            StreamKind::Control
        }
    }
}

pub mod biremote {
    use super::*;
    use crate::driver::streams::session::StreamSession;
    use wtransport_proto::session::SessionRequest;

    #[derive(Debug)]
    pub struct AlreadyStop;

    /// model of `driver::streams::biremote::StreamBiRemoteH3` (a peer-opened request stream): records STOP_SENDING
    pub struct StreamBiRemoteH3 {
        /// shared with the harness: the code the driver stopped the stream with
        pub stop_log: std::rc::Rc<std::cell::Cell<Option<u64>>>,
        pub reset_log: std::rc::Rc<std::cell::Cell<Option<u64>>>,
    }

    impl StreamBiRemoteH3 {
        pub fn stop(&mut self, error_code: VarInt) -> Result<(), AlreadyStop> {
            if self.stop_log.get().is_some() {
                return Err(AlreadyStop);
            }
            self.stop_log.set(Some(error_code.into_inner()));
            Ok(())
        }

        pub fn id(&self) -> crate::StreamId {
            crate::StreamId::new(VarInt::from_u32(0))
        }

        pub fn into_session(self, _session_request: SessionRequest) -> StreamSession {
            StreamSession {
                script: Script { events: [None, None, None], n: 0, reads: 0 },
                reset_log: self.reset_log,
                stop_log: self.stop_log,
            }
        }
    }
}
