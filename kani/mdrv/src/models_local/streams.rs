//! ENVIRONMENT MODELS of the driver's QUIC-backed stream wrappers (`driver/streams/mod.rs`): the peer / quinn is
//! replaced by a script of events chosen by the harness (symbolic where the harness makes them so). Scripts end on
//! a concrete call counter (DESIGN §3 6b). Models never allocate except for frame payloads handed to the real code.
use crate::driver::streams::{ProtoReadError, ProtoWriteError};
use std::borrow::Cow;
use wtransport_proto::bytes::IoReadError;
use wtransport_proto::error::ErrorCode;
use wtransport_proto::frame::Frame;
use wtransport_proto::stream_header::StreamKind;
use wtransport_proto::varint::VarInt;

/// one scripted event of an incoming H3 stream
#[derive(Clone, Copy)]
pub enum Ev {
    /// a frame: kind selector (0 DATA, 1 HEADERS, 2 SETTINGS, 3 GREASE 0x21), payload = bytes[..len]
    Frame { kind: u8, bytes: [u8; PAYLOAD_MAX], len: usize },
    H3(ErrorCode),
    ImmediateFin,
    UnexpectedFin,
    Reset,
    NotConnected,
}

pub const PAYLOAD_MAX: usize = 12;
pub const SCRIPT_MAX: usize = 3;

pub struct Script {
    pub events: [Ev; SCRIPT_MAX],
    pub n: usize,
    pub reads: usize,
}

impl Script {
    pub fn next<'a>(&mut self) -> Result<Frame<'a>, ProtoReadError> {
        let i = self.reads;
        self.reads += 1;
        if i >= self.n {
            // script exhausted: the connection goes away (concrete end of every script)
            return Err(ProtoReadError::IO(IoReadError::NotConnected));
        }
        match self.events[i] {
            Ev::Frame { kind, bytes, len } => {
                let payload = vec_of(&bytes, len);
                Ok(match kind {
                    0 => Frame::new_data(Cow::Owned(payload)),
                    1 => Frame::new_headers(Cow::Owned(payload)),
                    2 => Frame::new_settings(Cow::Owned(payload)),
                    _ => Frame::new_exercise(VarInt::from_u32(0x21), Cow::Owned(payload)),
                })
            }
            Ev::H3(code) => Err(ProtoReadError::H3(code)),
            Ev::ImmediateFin => Err(ProtoReadError::IO(IoReadError::ImmediateFin)),
            Ev::UnexpectedFin => Err(ProtoReadError::IO(IoReadError::UnexpectedFin)),
            Ev::Reset => Err(ProtoReadError::IO(IoReadError::Reset)),
            Ev::NotConnected => Err(ProtoReadError::IO(IoReadError::NotConnected)),
        }
    }
}

/// `bytes[..len].to_vec()` with one allocation site per length, so that every allocation has a concrete size
/// (a symbolic-size copy is what exhausts CBMC's memory, DESIGN §3)
fn vec_of(bytes: &[u8; PAYLOAD_MAX], len: usize) -> Vec<u8> {
    match len {
        0 => Vec::new(),
        1 => bytes[..1].to_vec(),
        2 => bytes[..2].to_vec(),
        3 => bytes[..3].to_vec(),
        4 => bytes[..4].to_vec(),
        5 => bytes[..5].to_vec(),
        6 => bytes[..6].to_vec(),
        7 => bytes[..7].to_vec(),
        8 => bytes[..8].to_vec(),
        9 => bytes[..9].to_vec(),
        10 => bytes[..10].to_vec(),
        11 => bytes[..11].to_vec(),
        _ => bytes[..].to_vec(),
    }
}

pub mod session {
    use super::*;

    /// model of `driver::streams::session::StreamSession` (the established CONNECT stream)
    pub struct StreamSession {
        pub script: Script,
        /// shared with the harness: the code the driver reset the stream with
        pub reset_log: std::rc::Rc<std::cell::Cell<Option<u64>>>,
        /// shared with the harness: STOP_SENDING code (session requests discarded because the queue is full)
        pub stop_log: std::rc::Rc<std::cell::Cell<Option<u64>>>,
    }

    impl StreamSession {
        pub async fn read_frame<'a>(&mut self) -> Result<Frame<'a>, ProtoReadError> {
            self.script.next()
        }

        pub fn reset(&mut self, error_code: VarInt) {
            self.reset_log.set(Some(error_code.into_inner()));
        }

        pub fn stop(&mut self, error_code: VarInt) -> Result<(), super::biremote::AlreadyStop> {
            if self.stop_log.get().is_some() {
                return Err(super::biremote::AlreadyStop);
            }
            self.stop_log.set(Some(error_code.into_inner()));
            Ok(())
        }
    }
}

pub mod uniremote {
    use super::*;

    use crate::error::{StreamReadError, StreamReadExactError};

    /// model of `QuicRecvStream` as used by the QPACK stream runners: `read_exact` results are scripted:
    /// `oks` successful reads, then the terminating outcome `end` (0 FinishedEarly, 1 NotConnected, 2 Reset, 3 QuicProto)
    pub struct ModelRecv {
        pub oks: usize,
        pub end: u8,
        pub reset_code: VarInt,
        pub reads: usize,
    }

    impl ModelRecv {
        pub async fn read_exact(&mut self, buf: &mut [u8]) -> Result<(), StreamReadExactError> {
            let i = self.reads;
            self.reads += 1;
            if i < self.oks {
                return Ok(());
            }
            Err(match self.end {
                0 => StreamReadExactError::FinishedEarly(0),
                1 => StreamReadExactError::Read(StreamReadError::NotConnected),
                2 => StreamReadExactError::Read(StreamReadError::Reset(self.reset_code)),
                _ => StreamReadExactError::Read(StreamReadError::QuicProto),
            })
        }
    }

    /// model of `driver::streams::uniremote::StreamUniRemoteH3` (a peer-opened unidirectional H3 stream)
    pub struct StreamUniRemoteH3 {
        pub script: Script,
        /// 0 Control, 1 QPackEncoder, 2 QPackDecoder, 3 GREASE (Exercise 0x21)
        pub kind: u8,
        pub recv: ModelRecv,
    }

    impl StreamUniRemoteH3 {
        pub fn control(script: Script) -> Self {
            Self { script, kind: 0, recv: ModelRecv { oks: 0, end: 1, reset_code: VarInt::from_u32(0), reads: 0 } }
        }

        pub async fn read_frame<'a>(&mut self) -> Result<Frame<'a>, ProtoReadError> {
            self.script.next()
        }

        pub fn kind(&self) -> StreamKind {
            match self.kind {
                0 => StreamKind::Control,
                1 => StreamKind::QPackEncoder,
                2 => StreamKind::QPackDecoder,
                _ => StreamKind::Exercise(VarInt::from_u32(0x21)),
            }
        }

        pub fn stream_mut(&mut self) -> &mut ModelRecv {
            &mut self.recv
        }
    }
}

pub mod unilocal {
    use super::*;
    use crate::error::StreamWriteError;

    pub struct WriteLog {
        pub written: [u8; 64],
        pub nwritten: usize,
        pub frames: usize,
    }

    /// model of `driver::streams::unilocal::StreamUniLocalH3` (our control stream): records what is written
    /// through the real `Frame::write` into a log shared with the harness, fails as scripted
    pub struct StreamUniLocalH3 {
        pub log: std::rc::Rc<std::cell::RefCell<WriteLog>>,
        pub write_result: u8, // 0 ok, 1 NotConnected, 2 Stopped
        pub stopped_result: u8,
        pub stopped_code: VarInt,
    }

    impl StreamUniLocalH3 {
        pub async fn write_frame(&mut self, frame: Frame<'_>) -> Result<(), ProtoWriteError> {
            match self.write_result {
                1 => return Err(ProtoWriteError::NotConnected),
                2 => return Err(ProtoWriteError::Stopped),
                _ => {}
            }
            let mut log = self.log.borrow_mut();
            let at = log.nwritten;
            let mut w = wtransport_proto::bytes::BufferWriter::new(&mut log.written[at..]);
            frame.write(&mut w).expect("model control stream capacity (64 bytes)");
            let n = w.offset();
            log.nwritten += n;
            log.frames += 1;
            Ok(())
        }

        pub async fn stopped(&mut self) -> StreamWriteError {
            match self.stopped_result {
                0 => StreamWriteError::NotConnected,
                1 => StreamWriteError::Closed,
                2 => StreamWriteError::Stopped(self.stopped_code),
                _ => StreamWriteError::QuicProto,
            }
        }

        pub fn kind(&self) -> StreamKind {
            StreamKind::Control
        }
    }
}

pub mod biremote {
    use super::*;
    use crate::driver::streams::session::StreamSession;
    use wtransport_proto::session::SessionRequest;

    #[derive(Debug)]
    pub struct AlreadyStop;

    /// model of `driver::streams::biremote::StreamBiRemoteH3` (a peer-opened request stream): records STOP_SENDING
    pub struct StreamBiRemoteH3 {
        /// shared with the harness: the code the driver stopped the stream with
        pub stop_log: std::rc::Rc<std::cell::Cell<Option<u64>>>,
        pub reset_log: std::rc::Rc<std::cell::Cell<Option<u64>>>,
    }

    impl StreamBiRemoteH3 {
        pub fn stop(&mut self, error_code: VarInt) -> Result<(), AlreadyStop> {
            if self.stop_log.get().is_some() {
                return Err(AlreadyStop);
            }
            self.stop_log.set(Some(error_code.into_inner()));
            Ok(())
        }

        pub fn id(&self) -> crate::StreamId {
            crate::StreamId::new(VarInt::from_u32(0))
        }

        pub fn into_session(self, _session_request: SessionRequest) -> StreamSession {
            StreamSession {
                script: Script { events: [Ev::NotConnected; SCRIPT_MAX], n: 0, reads: 0 },
                reset_log: self.reset_log,
                stop_log: self.stop_log,
            }
        }
    }
}
