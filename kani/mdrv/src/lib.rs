//! E2 mirror of driver units of `wtransport` (see Cargo.toml). Module tree mirrors the real crate so that the
//! re-hosted files' `use crate::...` / `use super::...` lines resolve unchanged.
#![allow(unused, missing_docs, clippy::all, unused_qualifications)]

pub use wtransport_proto::ids::SessionId;
pub use wtransport_proto::ids::StreamId;
pub use wtransport_proto::varint::VarInt;

pub mod error {
    use crate::VarInt;
    include!("gen/error_items.rs");
}

#[path = "/repo/wtransport/src/datagram.rs"]
pub mod datagram;

pub mod driver {
    use crate::error::ApplicationClose;
    use wtransport_proto::error::ErrorCode;
    include!("gen/driver_error.rs");

    pub mod utils {
        use crate::VarInt;
        include!("gen/utils_items.rs");
    }

    pub mod streams {
        pub type ProtoReadError = wtransport_proto::stream::IoReadError;
        pub type ProtoWriteError = wtransport_proto::stream::IoWriteError;

        pub use crate::stream_models as models;
        pub use crate::stream_models::session;
        pub use crate::stream_models::unilocal;
        pub use crate::stream_models::uniremote;
        pub use crate::stream_models::biremote;

        #[path = "/repo/wtransport/src/driver/streams/connect.rs"]
        pub mod connect;

        #[path = "/repo/wtransport/src/driver/streams/settings.rs"]
        pub mod settings;

        #[path = "/repo/wtransport/src/driver/streams/qpack.rs"]
        pub mod qpack;
    }
}

#[path = "models_local/streams.rs"]
pub mod stream_models;

pub mod slices;

pub mod accept;

#[cfg(kani)]
pub mod vh;
