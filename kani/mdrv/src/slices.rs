//! hosts for expressions / methods sliced out of larger files of the `wtransport` crate (text regenerated into
//! src/gen/ from /repo on every run; see tools/mirror.py gen_mdrv for the exact slicing rules)
use crate::datagram::Datagram;
use crate::driver::utils::varint_w2q;
use crate::driver::DriverError;
use crate::SessionId;
use std::time::Duration;
use wtransport_proto::error::ErrorCode;

/// MODEL of `quinn::Connection` for the two methods the slices call
pub struct ModelQuicConnection {
    /// what quinn reports as its current datagram limit (quinn-proto datagrams.rs: `limit.saturating_sub(SIZE_BOUND)`,
    /// any usize including 0, or None when unsupported)
    pub max_datagram_size: Option<usize>,
    pub closed_with: std::cell::Cell<Option<(u64, usize)>>,
    pub close_calls: std::cell::Cell<usize>,
}

impl ModelQuicConnection {
    pub fn max_datagram_size(&self) -> Option<usize> {
        self.max_datagram_size
    }

    pub fn close(&self, error_code: quinn::VarInt, reason: &[u8]) {
        self.closed_with.set(Some((error_code.into_inner(), reason.len())));
        self.close_calls.set(self.close_calls.get() + 1);
    }
}

/// host of `Connection::max_datagram_size` (wtransport/src/connection.rs)
pub struct Connection {
    pub quic_connection: ModelQuicConnection,
    pub session_id: SessionId,
}

// `impl Connection { <sliced fn> }`
include!("gen/max_datagram_size.rs");

/// host of the close-code `match &error { .. }` at the end of `Worker::run` (wtransport/src/driver/mod.rs)
pub struct Worker {
    pub quic_connection: ModelQuicConnection,
}

impl Worker {
    pub fn close_for(&self, error: DriverError) {
        include!("gen/worker_close_match.rs");
    }
}

/// MODEL of `quinn::TransportConfig`: records the idle timeout it is given
pub struct ModelTransportConfig {
    pub idle: Option<Option<quinn::IdleTimeout>>,
}

impl ModelTransportConfig {
    pub fn max_idle_timeout(&mut self, value: Option<quinn::IdleTimeout>) -> &mut Self {
        self.idle = Some(value);
        self
    }
}

pub struct BuilderState {
    pub transport_config: ModelTransportConfig,
}

#[derive(Debug)]
pub struct InvalidIdleTimeout;

/// host of `ServerConfigBuilder<WantsTransportConfigServer>::max_idle_timeout` (wtransport/src/config.rs)
pub struct ServerBuilder(pub BuilderState);

// `impl ServerBuilder { <sliced fn> }`
include!("gen/max_idle_timeout_server.rs");

/// host of `ClientConfigBuilder<WantsTransportConfigClient>::max_idle_timeout`
pub struct ClientBuilder(pub BuilderState);

// `impl ClientBuilder { <sliced fn> }`
include!("gen/max_idle_timeout_client.rs");

// ---- Worker::handle_uni_h3_stream / handle_bi_h3_stream --------------------------------------------------------
use crate::driver::streams::biremote::StreamBiRemoteH3;
use crate::driver::streams::qpack::{RemoteQPackDecStream, RemoteQPackEncStream};
use crate::driver::streams::session::StreamSession;
use crate::driver::streams::settings::RemoteSettingsStream;
use crate::driver::streams::uniremote::StreamUniRemoteH3;
use crate::driver::utils::TrySendError;
use tracing::debug;
use wtransport_proto::frame::{Frame, FrameKind};
use wtransport_proto::headers::Headers;
use wtransport_proto::session::{HeadersParseError, SessionRequest};
use wtransport_proto::stream_header::StreamKind;

/// MODEL of the bounded hand-off queue `BiChannelEndpoint<StreamSession>`: try_send outcome scripted
/// (0 accepted, 1 full, 2 closed); counts accepted sessions
pub struct ModelSessionQueue {
    pub outcome: u8,
    pub accepted: std::cell::Cell<usize>,
}

impl ModelSessionQueue {
    pub fn try_send(&self, value: StreamSession) -> Result<(), TrySendError<StreamSession>> {
        match self.outcome {
            0 => {
                self.accepted.set(self.accepted.get() + 1);
                core::mem::forget(value);
                Ok(())
            }
            1 => Err(TrySendError::Full(value)),
            _ => Err(TrySendError::Closed(value)),
        }
    }
}

/// host of `Worker::handle_uni_h3_stream` / `Worker::handle_bi_h3_stream` (wtransport/src/driver/mod.rs): the fields
/// those two methods touch, with the real (re-hosted) stream-slot types
pub struct WorkerH {
    pub remote_settings_stream: RemoteSettingsStream,
    pub remote_qpack_enc_stream: RemoteQPackEncStream,
    pub remote_qpack_dec_stream: RemoteQPackDecStream,
    pub ready_sessions: ModelSessionQueue,
}

// `impl WorkerH { <sliced handle_uni_h3_stream> <sliced handle_bi_h3_stream> }`
include!("gen/worker_handlers.rs");
