//! hosts + environment models for the stream / datagram hand-off code of wtransport/src/driver/mod.rs:
//!   worker::Worker::{accept_uni, accept_bi, accept_datagram}   (the three accepting branches of the worker's select loop)
//!   Driver::{accept_uni, accept_bi, receive_datagram, result}  (what Connection::accept_* awaits)
//! The function texts are sliced from /repo into src/gen/accept_*.rs on every run (tools/mirror.py gen_mdrv); the only
//! substitution is the parameter type `&quinn::Connection` -> `&ModelConnection`.
use crate::datagram::Datagram;
use crate::driver::streams::ProtoReadError;
use crate::driver::DriverError;
use crate::SessionId;
use crate::StreamId;
use crate::VarInt;
use std::cell::Cell;
use std::future::Future;
use std::pin::Pin;
use std::task::{Context, Poll};
use tokio::sync::mpsc;
use tokio::sync::Mutex;
use tracing::debug;
use tracing::debug_span;
use tracing::trace;
use tracing::Instrument;
use wtransport_proto::error::ErrorCode;
use wtransport_proto::frame::Frame;
use wtransport_proto::frame::FrameKind;
use wtransport_proto::stream_header::StreamKind;

/// MODEL of `quinn::Connection` as the accepting code sees it: counters of peer-opened streams / datagrams that are
/// ready to be pulled (raised by the harness between polls) and of those already pulled; `closed` makes the accept
/// futures resolve to None / Err as quinn does once the connection is lost. quinn documents accept_uni / accept_bi /
/// read_datagram as cancel-safe: an item is removed from the connection only by the poll that returns it.
pub struct ModelConnection {
    pub uni_ready: Cell<usize>,
    pub bi_ready: Cell<usize>,
    pub dgram_ready: Cell<usize>,
    pub uni_pulled: Cell<usize>,
    pub bi_pulled: Cell<usize>,
    pub dgram_pulled: Cell<usize>,
    pub closed: Cell<bool>,
    /// what the pulled stream will turn out to be when the spawned task reads it (chosen by the harness)
    pub script: StreamScript,
    /// bytes of the next datagram
    pub dgram: &'static [u8],
}

#[derive(Clone, Copy)]
pub struct StreamScript {
    /// uni: 0 control-like H3 stream, 1 WebTransport stream, 2 Err(H3(code)), 3 Err(IO)
    /// bi : 0 HEADERS first frame, 1 WebTransport first frame, 2 Err(H3(code)), 3 Err(IO), 4 one GREASE frame then HEADERS
    pub outcome: u8,
    pub session: SessionId,
    /// how many times the read suspends before it resolves
    pub suspends: u8,
}

impl ModelConnection {
    pub fn new(script: StreamScript) -> Self {
        ModelConnection {
            uni_ready: Cell::new(0),
            bi_ready: Cell::new(0),
            dgram_ready: Cell::new(0),
            uni_pulled: Cell::new(0),
            bi_pulled: Cell::new(0),
            dgram_pulled: Cell::new(0),
            closed: Cell::new(false),
            script,
            dgram: &[0x00, 0xaa],
        }
    }

    pub fn read_datagram(&self) -> PullFut<'_, bytes::Bytes> {
        PullFut { conn: self, what: 2, _p: std::marker::PhantomData }
    }
}

pub struct PullFut<'a, T> {
    conn: &'a ModelConnection,
    what: u8,
    _p: std::marker::PhantomData<T>,
}

fn pull(conn: &ModelConnection, what: u8) -> Option<bool> {
    let (ready, pulled) = match what {
        0 => (&conn.uni_ready, &conn.uni_pulled),
        1 => (&conn.bi_ready, &conn.bi_pulled),
        _ => (&conn.dgram_ready, &conn.dgram_pulled),
    };
    if ready.get() > 0 {
        ready.set(ready.get() - 1);
        pulled.set(pulled.get() + 1);
        Some(true)
    } else if conn.closed.get() {
        Some(false)
    } else {
        None
    }
}

impl Future for PullFut<'_, bytes::Bytes> {
    type Output = Result<bytes::Bytes, ()>;
    fn poll(self: Pin<&mut Self>, _cx: &mut Context<'_>) -> Poll<Self::Output> {
        match pull(self.conn, self.what) {
            None => Poll::Pending,
            Some(true) => Poll::Ready(Ok(bytes::Bytes::from_static(self.conn.dgram))),
            Some(false) => Poll::Ready(Err(())),
        }
    }
}

impl Future for PullFut<'_, QuicUni> {
    type Output = Option<QuicUni>;
    fn poll(self: Pin<&mut Self>, _cx: &mut Context<'_>) -> Poll<Self::Output> {
        match pull(self.conn, self.what) {
            None => Poll::Pending,
            Some(true) => Poll::Ready(Some(QuicUni { script: self.conn.script })),
            Some(false) => Poll::Ready(None),
        }
    }
}

impl Future for PullFut<'_, QuicBi> {
    type Output = Option<QuicBi>;
    fn poll(self: Pin<&mut Self>, _cx: &mut Context<'_>) -> Poll<Self::Output> {
        match pull(self.conn, self.what) {
            None => Poll::Pending,
            Some(true) => Poll::Ready(Some(QuicBi { script: self.conn.script })),
            Some(false) => Poll::Ready(None),
        }
    }
}

/// stands for `crate::driver::streams::Stream` (only its two associated accept functions are named by the slices)
pub struct Stream;

impl Stream {
    pub fn accept_uni(conn: &ModelConnection) -> PullFut<'_, QuicUni> {
        PullFut { conn, what: 0, _p: std::marker::PhantomData }
    }
    pub fn accept_bi(conn: &ModelConnection) -> PullFut<'_, QuicBi> {
        PullFut { conn, what: 1, _p: std::marker::PhantomData }
    }
}

/// a future that suspends `n` times and then resolves (models a read that needs more packets)
pub struct Suspend(pub u8);
impl Future for Suspend {
    type Output = ();
    fn poll(mut self: Pin<&mut Self>, _cx: &mut Context<'_>) -> Poll<()> {
        if self.0 == 0 {
            Poll::Ready(())
        } else {
            self.0 -= 1;
            Poll::Pending
        }
    }
}

fn io_err() -> ProtoReadError {
    ProtoReadError::IO(wtransport_proto::bytes::IoReadError::NotConnected)
}

/// MODEL of a freshly accepted unidirectional QUIC stream (`StreamUniRemoteQuic`)
pub struct QuicUni {
    script: StreamScript,
}
impl QuicUni {
    pub fn id(&self) -> StreamId {
        StreamId::new(VarInt::from_u32(2))
    }
    pub async fn upgrade(self) -> Result<StreamUniRemoteH3, ProtoReadError> {
        Suspend(self.script.suspends).await;
        match self.script.outcome {
            0 => Ok(StreamUniRemoteH3 { kind: StreamKind::Control, session: self.script.session }),
            1 => Ok(StreamUniRemoteH3 { kind: StreamKind::WebTransport, session: self.script.session }),
            2 => Err(ProtoReadError::H3(ErrorCode::StreamCreation)),
            _ => Err(io_err()),
        }
    }
}
pub struct StreamUniRemoteH3 {
    kind: StreamKind,
    session: SessionId,
}
impl StreamUniRemoteH3 {
    pub fn kind(&self) -> StreamKind {
        self.kind
    }
    pub fn upgrade(self) -> StreamUniRemoteWT {
        StreamUniRemoteWT { session: self.session, id: 2, stops: std::ptr::null() }
    }
}

/// record of `stop(code)` calls on discarded streams
pub struct StopLog {
    pub calls: Cell<usize>,
    pub last_code: Cell<u64>,
    pub last_id: Cell<u64>,
}
impl StopLog {
    pub fn new() -> Self {
        StopLog { calls: Cell::new(0), last_code: Cell::new(0), last_id: Cell::new(0) }
    }
}

/// MODEL of the receive side handed to the application (`StreamUniRemoteWT`, and the receive half of `StreamBiRemoteWT`)
pub struct StreamUniRemoteWT {
    pub session: SessionId,
    pub id: u64,
    pub stops: *const StopLog,
}
pub struct ModelRecvHalf {
    id: u64,
    stops: *const StopLog,
}
#[derive(Debug)]
pub struct ModelClosedStream;
impl ModelRecvHalf {
    pub fn stop(mut self, error_code: VarInt) -> Result<(), ModelClosedStream> {
        if !self.stops.is_null() {
            let log = unsafe { &*self.stops };
            log.calls.set(log.calls.get() + 1);
            log.last_code.set(error_code.into_inner());
            log.last_id.set(self.id);
        }
        Ok(())
    }
}
impl StreamUniRemoteWT {
    pub fn session_id(&self) -> SessionId {
        self.session
    }
    pub fn id(&self) -> StreamId {
        StreamId::new(VarInt::try_from_u64(self.id).unwrap())
    }
    pub fn into_stream(self) -> ModelRecvHalf {
        ModelRecvHalf { id: self.id, stops: self.stops }
    }
}

/// MODEL of a freshly accepted bidirectional QUIC stream (`StreamBiRemoteQuic`)
pub struct QuicBi {
    script: StreamScript,
}
impl QuicBi {
    pub fn id(&self) -> StreamId {
        StreamId::new(VarInt::from_u32(0))
    }
    pub fn upgrade(self) -> StreamBiRemoteH3 {
        StreamBiRemoteH3 { script: self.script, reads: 0 }
    }
}
pub struct StreamBiRemoteH3 {
    script: StreamScript,
    pub reads: u8,
}
impl StreamBiRemoteH3 {
    pub async fn read_frame<'a>(&mut self) -> Result<Frame<'a>, ProtoReadError> {
        Suspend(self.script.suspends).await;
        self.reads += 1;
        match self.script.outcome {
            0 => Ok(Frame::new_data(std::borrow::Cow::Borrowed(&[]))),
            1 => Ok(Frame::new_webtransport(self.script.session)),
            2 => Err(ProtoReadError::H3(ErrorCode::Frame)),
            4 if self.reads == 1 => Ok(Frame::new_exercise(VarInt::from_u32(0x21), std::borrow::Cow::Borrowed(&[]))),
            4 => Ok(Frame::new_data(std::borrow::Cow::Borrowed(&[]))),
            _ => Err(io_err()),
        }
    }
    pub fn upgrade(self, session_id: SessionId) -> StreamBiRemoteWT {
        StreamBiRemoteWT { session: session_id, id: 0, stops: std::ptr::null() }
    }
}
pub struct StreamBiRemoteWT {
    pub session: SessionId,
    pub id: u64,
    pub stops: *const StopLog,
}
pub struct ModelSendHalf;
impl StreamBiRemoteWT {
    pub fn session_id(&self) -> SessionId {
        self.session
    }
    pub fn id(&self) -> StreamId {
        StreamId::new(VarInt::try_from_u64(self.id).unwrap())
    }
    pub fn into_stream(self) -> (ModelSendHalf, ModelRecvHalf) {
        (ModelSendHalf, ModelRecvHalf { id: self.id, stops: self.stops })
    }
}

/// host of the three accepting branches of `worker::Worker` (associated functions, no `self`)
pub struct WorkerA;

// `impl WorkerA { <sliced accept_uni> <sliced accept_bi> <sliced accept_datagram> }`
include!("gen/accept_worker.rs");

/// MODEL of `SharedResultGet<DriverError>`: the worker's final result, if it has one yet. Heap-free: the stored
/// result is a local protocol error code (the real one clones an arbitrary DriverError; cloning a boxed close reason
/// under a merged path condition is what made the first version of these harnesses explode)
pub struct ModelResult {
    pub value: Option<ErrorCode>,
}
impl ModelResult {
    pub async fn result(&self) -> Option<DriverError> {
        match self.value {
            Some(code) => Some(DriverError::Proto(code)),
            None => None,
        }
    }
}

/// host of `Driver::{accept_uni, accept_bi, receive_datagram, result}`: the fields those methods touch
pub struct DriverH {
    pub ready_uni_wt_streams: Mutex<mpsc::Receiver<StreamUniRemoteWT>>,
    pub ready_bi_wt_streams: Mutex<mpsc::Receiver<StreamBiRemoteWT>>,
    pub ready_datagrams: Mutex<mpsc::Receiver<Datagram>>,
    pub driver_result: ModelResult,
}

// `impl DriverH { <sliced accept_uni> <sliced accept_bi> <sliced receive_datagram> <sliced result> }`
include!("gen/accept_driver.rs");
