//! E2 slice crate for C06 (see Cargo.toml)
#![allow(unused, missing_docs, clippy::all, unused_qualifications)]

pub use wtransport_proto::ids::StreamId;
pub use wtransport_proto::varint::VarInt;

/// MODEL of `quinn::Connection` for `ConnectionError::{with_driver_error,no_connect}`: only `close_reason()` is used
pub struct ModelConnection {
    pub close_reason: Option<quinn::ConnectionError>,
}

impl ModelConnection {
    pub fn close_reason(&self) -> Option<quinn::ConnectionError> {
        self.close_reason.clone()
    }
}

/// wtransport/src/error.rs re-hosted as a whole (src/gen/error.rs; parameter type substitution only)
#[path = "gen/error.rs"]
pub mod error;

pub mod driver {
    use crate::error::ApplicationClose;
    use wtransport_proto::error::ErrorCode;
    // sliced: DriverError (wtransport/src/driver/mod.rs)
    include!("gen/driver_error.rs");

    pub mod utils {
        use crate::VarInt;
        // sliced: varint_q2w, varint_w2q (wtransport/src/driver/utils.rs)
        include!("gen/utils_items.rs");
    }
}

pub use driver::utils;

pub mod streams {
    use crate::error::ClosedStream;
    use crate::error::StreamReadError;
    use crate::error::StreamReadExactError;
    use crate::error::StreamWriteError;
    use crate::utils::varint_q2w;
    use crate::utils::varint_w2q;
    use crate::VarInt;

    /// MODEL of `quinn::SendStream`: results of finish / stopped / reset are chosen by the harness
    /// (quinn's documented contract: `stopped()` resolves to Ok(None) once the stream is finished and fully
    /// acknowledged, Ok(Some(code)) when the peer stopped it, Err on connection loss / 0-RTT rejection)
    pub struct ModelSendStream {
        pub finish_ok: bool,
        /// 0 Ok(None)  1 Ok(Some(code))  2 Err(ConnectionLost(TimedOut))  3 Err(ZeroRttRejected)
        pub stopped_outcome: u8,
        pub stopped_code: u64,
        pub reset_ok: bool,
        pub finish_calls: usize,
        pub stopped_calls: usize,
        pub reset_with: Option<u64>,
    }

    impl ModelSendStream {
        pub fn finish(&mut self) -> Result<(), quinn::ClosedStream> {
            self.finish_calls += 1;
            if self.finish_ok {
                Ok(())
            } else {
                Err(quinn::ClosedStream::default())
            }
        }

        pub async fn stopped(&mut self) -> Result<Option<quinn::VarInt>, quinn::StoppedError> {
            self.stopped_calls += 1;
            match self.stopped_outcome {
                0 => Ok(None),
                1 => Ok(Some(quinn::VarInt::from_u64(self.stopped_code).unwrap())),
                2 => Err(quinn::StoppedError::ConnectionLost(quinn::ConnectionError::TimedOut)),
                _ => Err(quinn::StoppedError::ZeroRttRejected),
            }
        }

        pub fn reset(&mut self, error_code: quinn::VarInt) -> Result<(), quinn::ClosedStream> {
            if self.reset_ok {
                self.reset_with = Some(error_code.into_inner());
                Ok(())
            } else {
                Err(quinn::ClosedStream::default())
            }
        }
    }

    /// MODEL of `quinn::RecvStream`
    pub struct ModelRecvStream {
        /// 0 Ok(Some(n))  1 Ok(None)  2 Err(Reset(code))  3 Err(ConnectionLost)  4 Err(ClosedStream)
        /// 5 Err(IllegalOrderedRead)  6 Err(ZeroRttRejected)
        pub read_outcome: u8,
        pub read_n: usize,
        pub code: u64,
        /// read_exact: 0 Ok  1 FinishedEarly(read_n)  2.. ReadError(as read_outcome)
        pub exact_outcome: u8,
        pub stop_ok: bool,
        pub stopped_with: Option<u64>,
    }

    impl ModelRecvStream {
        fn read_error(&self, k: u8) -> quinn::ReadError {
            match k {
                2 => quinn::ReadError::Reset(quinn::VarInt::from_u64(self.code).unwrap()),
                3 => quinn::ReadError::ConnectionLost(quinn::ConnectionError::LocallyClosed),
                4 => quinn::ReadError::ClosedStream,
                5 => quinn::ReadError::IllegalOrderedRead,
                _ => quinn::ReadError::ZeroRttRejected,
            }
        }

        pub async fn read(&mut self, buf: &mut [u8]) -> Result<Option<usize>, quinn::ReadError> {
            match self.read_outcome {
                0 => Ok(Some(self.read_n)),
                1 => Ok(None),
                k => Err(self.read_error(k)),
            }
        }

        pub async fn read_exact(&mut self, buf: &mut [u8]) -> Result<(), quinn::ReadExactError> {
            match self.exact_outcome {
                0 => Ok(()),
                1 => Err(quinn::ReadExactError::FinishedEarly(self.read_n)),
                k => Err(quinn::ReadExactError::ReadError(self.read_error(k))),
            }
        }

        pub fn stop(&mut self, error_code: quinn::VarInt) -> Result<(), quinn::ClosedStream> {
            if self.stop_ok {
                self.stopped_with = Some(error_code.into_inner());
                Ok(())
            } else {
                Err(quinn::ClosedStream::default())
            }
        }
    }

    #[derive(Debug)]
    pub struct AlreadyStop;

    pub struct QuicSendStream(pub ModelSendStream);
    pub struct QuicRecvStream(pub ModelRecvStream);

    // sliced: `impl QuicSendStream { finish, stopped, reset }`, `impl QuicRecvStream { read, read_exact, stop }`,
    // `impl From<quinn::WriteError> for StreamWriteError`, `impl From<quinn::ReadError> for StreamReadError`
    include!("gen/stream_items.rs");
}

#[cfg(kani)]
mod vh;
