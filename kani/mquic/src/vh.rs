//! C06 harnesses over the sliced stream methods
use crate::error::{StreamReadError, StreamReadExactError, StreamWriteError};
use crate::streams::*;
use crate::VarInt;
use std::future::Future;
use std::task::{Context, Poll, Waker};

fn poll_once<F: Future>(fut: F) -> Option<F::Output> {
    let mut fut = std::pin::pin!(fut);
    let mut cx = Context::from_waker(Waker::noop());
    match fut.as_mut().poll(&mut cx) {
        Poll::Ready(v) => Some(v),
        Poll::Pending => None,
    }
}

fn any_send() -> ModelSendStream {
    let stopped_outcome: u8 = kani::any();
    kani::assume(stopped_outcome < 4);
    let stopped_code: u64 = kani::any();
    kani::assume(stopped_code < (1 << 62));
    ModelSendStream {
        finish_ok: kani::any(),
        stopped_outcome,
        stopped_code,
        reset_ok: kani::any(),
        finish_calls: 0,
        stopped_calls: 0,
        reset_with: None,
    }
}

// @h props=C06 tier=quick t=1800 sub=send-stream-finish-stopped
// @fn wtransport/src/driver/streams/mod.rs QuicSendStream::{finish,stopped,reset} (sliced); wtransport/src/driver/utils.rs varint_q2w varint_w2q (sliced)
// @bound every result of quinn's finish() (ok / already closed), every outcome of quinn's stopped() (acknowledged, stopped with any 62-bit code, connection lost, 0-RTT rejected), every reset code
// @oracle finish() succeeds <=> the peer acknowledged everything (stopped() == Ok(None)) — whatever quinn's finish() returned (a second finish, or finish after shutdown, must still wait for the acknowledgement); a stop with code c is reported as Stopped(c) by finish() and stopped(); connection lost => NotConnected; 0-RTT rejected => QuicProto; reset(c) hands exactly c to quinn
// @assume ModelSendStream (quinn's documented contract for finish/stopped/reset); real quinn error and VarInt types
// @outside that quinn delivers the peer's code and acknowledgements; phases of a live stream
#[kani::proof]
#[kani::unwind(8)]
fn q_send_stream_finish_stopped() {
    let m = any_send();
    let outcome = m.stopped_outcome;
    let code = m.stopped_code;
    let finish_ok = m.finish_ok;
    let mut s = QuicSendStream(m);
    let r = poll_once(s.finish()).expect("finish pending although the model resolves at once");
    assert!(s.0.finish_calls == 1, "finish() did not ask quinn to finish the stream");
    match (&r, outcome) {
        (Ok(()), 0) => {
            kani::cover!(!finish_ok, "stream already finished earlier, acknowledged now");
        }
        (Err(StreamWriteError::Stopped(c)), 1) => {
            assert!(c.into_inner() == code, "stop code altered");
            kani::cover!(!finish_ok && code == (1 << 62) - 1, "stopped with the largest code after an earlier finish");
        }
        (Err(StreamWriteError::NotConnected), 2) => {}
        (Err(StreamWriteError::QuicProto), 3) => {}
        _ => assert!(false, "finish() result does not reflect the peer's acknowledgement / stop"),
    }
    // stopped() on its own
    let st = poll_once(s.stopped()).unwrap();
    match (&st, outcome) {
        (StreamWriteError::Closed, 0) => {}
        (StreamWriteError::Stopped(c), 1) => assert!(c.into_inner() == code),
        (StreamWriteError::NotConnected, 2) => {}
        (StreamWriteError::QuicProto, 3) => {}
        _ => assert!(false, "stopped() misreports the peer's signal"),
    }
    // reset
    let rc: u64 = kani::any();
    kani::assume(rc < (1 << 62));
    let reset_ok = s.0.reset_ok;
    let rr = s.reset(VarInt::try_from_u64(rc).unwrap());
    assert!(rr.is_ok() == reset_ok);
    if reset_ok {
        assert!(s.0.reset_with == Some(rc), "reset code altered on its way to quinn");
        kani::cover!(rc == (1 << 62) - 1, "largest reset code");
    }
}

// @h props=C06 tier=quick t=1800 sub=recv-stream
// @fn wtransport/src/driver/streams/mod.rs QuicRecvStream::{read,read_exact,stop} <StreamReadError as From<quinn::ReadError>>::from (sliced)
// @bound every outcome of quinn's read / read_exact (data, end of stream, reset with any 62-bit code, connection lost, closed stream, illegal ordered read, 0-RTT rejected, finished early after n bytes), every stop code
// @oracle data and end-of-stream pass through unchanged; Reset(c) => Reset(c) with the identical code; ConnectionLost|ClosedStream => NotConnected; IllegalOrderedRead|ZeroRttRejected => QuicProto; FinishedEarly(n) => FinishedEarly(n); stop(c) hands exactly c to quinn
// @assume ModelRecvStream; real quinn error types
#[kani::proof]
#[kani::unwind(8)]
fn q_recv_stream() {
    let read_outcome: u8 = kani::any();
    kani::assume(read_outcome < 7);
    let exact_outcome: u8 = kani::any();
    kani::assume(exact_outcome < 7);
    let code: u64 = kani::any();
    kani::assume(code < (1 << 62));
    let read_n: usize = kani::any();
    let stop_ok: bool = kani::any();
    let mut s = QuicRecvStream(ModelRecvStream { read_outcome, read_n, code, exact_outcome, stop_ok, stopped_with: None });
    let mut buf = [0u8; 4];
    let r = poll_once(s.read(&mut buf)).unwrap();
    match (&r, read_outcome) {
        (Ok(Some(n)), 0) => assert!(*n == read_n),
        (Ok(None), 1) => {}
        (Err(StreamReadError::Reset(c)), 2) => {
            assert!(c.into_inner() == code, "reset code altered");
            kani::cover!(code == (1 << 62) - 1, "largest reset code");
        }
        (Err(StreamReadError::NotConnected), 3) | (Err(StreamReadError::NotConnected), 4) => {}
        (Err(StreamReadError::QuicProto), 5) | (Err(StreamReadError::QuicProto), 6) => {}
        _ => assert!(false, "read() misreports quinn's result"),
    }
    let e = poll_once(s.read_exact(&mut buf)).unwrap();
    match (&e, exact_outcome) {
        (Ok(()), 0) => {}
        (Err(StreamReadExactError::FinishedEarly(n)), 1) => assert!(*n == read_n),
        (Err(StreamReadExactError::Read(StreamReadError::Reset(c))), 2) => assert!(c.into_inner() == code),
        (Err(StreamReadExactError::Read(StreamReadError::NotConnected)), 3) | (Err(StreamReadExactError::Read(StreamReadError::NotConnected)), 4) => {}
        (Err(StreamReadExactError::Read(StreamReadError::QuicProto)), 5) | (Err(StreamReadExactError::Read(StreamReadError::QuicProto)), 6) => {}
        _ => assert!(false, "read_exact() misreports quinn's result"),
    }
    let sc: u64 = kani::any();
    kani::assume(sc < (1 << 62));
    let sr = s.stop(VarInt::try_from_u64(sc).unwrap());
    assert!(sr.is_ok() == stop_ok);
    if stop_ok {
        assert!(s.0.stopped_with == Some(sc), "stop code altered on its way to quinn");
        kani::cover!(sc == 0x3994_bd84, "buffered-stream-rejected code");
    }
}

// @h props=C06 tier=quick t=900 expect=fail sub=twin
// @fn wtransport/src/driver/streams/mod.rs QuicSendStream::finish (sliced)
// @bound twin: claims finish() never succeeds; must be refuted
#[kani::proof]
#[kani::unwind(8)]
fn q_twin_must_fail() {
    let mut s = QuicSendStream(any_send());
    let r = poll_once(s.finish()).unwrap();
    assert!(r.is_err(), "twin: wrong oracle");
}
