//! Harnesses over the re-hosted `wtransport/src/error.rs` (child module of `error`: reads private fields).
use super::*;
use crate::driver::DriverError;
use crate::ModelConnection;

const CODES: [ErrorCode; 15] = [
    ErrorCode::Datagram,
    ErrorCode::NoError,
    ErrorCode::StreamCreation,
    ErrorCode::ClosedCriticalStream,
    ErrorCode::FrameUnexpected,
    ErrorCode::Frame,
    ErrorCode::ExcessiveLoad,
    ErrorCode::Id,
    ErrorCode::Settings,
    ErrorCode::MissingSettings,
    ErrorCode::RequestRejected,
    ErrorCode::Message,
    ErrorCode::Decompression,
    ErrorCode::BufferedStreamRejected,
    ErrorCode::SessionGone,
];

fn any_code() -> ErrorCode {
    let i: usize = kani::any();
    kani::assume(i < CODES.len());
    CODES[i]
}

/// close reasons of the model connection that are not an application close (index chosen by the harness)
fn non_app_reason(k: u8) -> Option<quinn::ConnectionError> {
    match k {
        0 => None,
        1 => Some(quinn::ConnectionError::TimedOut),
        2 => Some(quinn::ConnectionError::LocallyClosed),
        3 => Some(quinn::ConnectionError::Reset),
        4 => Some(quinn::ConnectionError::VersionMismatch),
        _ => Some(quinn::ConnectionError::CidsExhausted),
    }
}

fn peer_closed(q_code: u64, q_reason: &[u8; 3]) -> ModelConnection {
    ModelConnection {
        close_reason: Some(quinn::ConnectionError::ApplicationClosed(quinn::ApplicationClose {
            error_code: quinn::VarInt::from_u64(q_code).unwrap(),
            reason: bytes::Bytes::copy_from_slice(q_reason),
        })),
    }
}

fn same3(r: &[u8], w: &[u8; 3]) -> bool {
    r.len() == 3 && r[0] == w[0] && r[1] == w[1] && r[2] == w[2]
}

// @h props=C04 tier=quick t=1800 sub=driver-proto-error
// @fn wtransport/src/error.rs ConnectionError::{with_driver_error,local_h3_error} (whole file re-hosted), driver::DriverError
// @bound each of the 15 ErrorCode values; connection close reason in {None, TimedOut, LocallyClosed, Reset, VersionMismatch, CidsExhausted} (symbolic choice) and, second part, a peer application close with symbolic 62-bit code and 3 symbolic reason bytes; unwind 8
// @oracle a local protocol error c is reported as LocalH3Error(c) whatever the connection's own close reason says - never as an application close, never with another code
// @assume MODEL ModelConnection.close_reason() returns the reason chosen by the harness (quinn::Connection cannot be constructed without a live endpoint)
#[kani::proof]
#[kani::unwind(8)]
fn q_driver_proto_error() {
    let c = any_code();
    let conn_kind: u8 = kani::any();
    kani::assume(conn_kind < 6);
    let conn = ModelConnection {
        close_reason: non_app_reason(conn_kind),
    };
    match ConnectionError::with_driver_error(DriverError::Proto(c), &conn) {
        ConnectionError::LocalH3Error(h) => assert!(h.code == c, "local protocol error reported with a different code"),
        _ => panic!("local protocol error misattributed"),
    }
    let q_code: u64 = kani::any();
    kani::assume(q_code < (1u64 << 62));
    let q_reason: [u8; 3] = kani::any();
    let conn = peer_closed(q_code, &q_reason);
    match ConnectionError::with_driver_error(DriverError::Proto(c), &conn) {
        ConnectionError::LocalH3Error(h) => assert!(h.code == c, "local protocol error reported with a different code"),
        _ => panic!("local protocol error misattributed"),
    }
    kani::cover!(conn_kind == 1 && matches!(c, ErrorCode::SessionGone), "timed out, session gone");
    std::mem::forget(conn);
}

// @h props=C04 tier=quick t=1800 sub=driver-application-closed
// @fn wtransport/src/error.rs ConnectionError::with_driver_error, ApplicationClose::{new,code,reason}
// @bound DriverError::ApplicationClosed with symbolic 62-bit code and 3 symbolic reason bytes; connection close reason in {None, TimedOut, LocallyClosed, Reset, VersionMismatch, CidsExhausted}; unwind 8
// @oracle the close recorded by the driver (capsule or clean finish) is reported as ApplicationClosed with exactly that code and those reason bytes, whatever the transport's close reason is by then
// @assume MODEL ModelConnection (as above)
// @outside reasons longer than 3 bytes (the function moves the boxed slice; it does not look at the bytes)
#[kani::proof]
#[kani::unwind(8)]
fn q_driver_application_closed() {
    let conn_kind: u8 = kani::any();
    kani::assume(conn_kind < 6);
    let conn = ModelConnection {
        close_reason: non_app_reason(conn_kind),
    };
    let d_code: u64 = kani::any();
    kani::assume(d_code < (1u64 << 62));
    let d_reason: [u8; 3] = kani::any();
    let close = ApplicationClose::new(VarInt::try_from_u64(d_code).unwrap(), d_reason.to_vec().into_boxed_slice());
    match ConnectionError::with_driver_error(DriverError::ApplicationClosed(close), &conn) {
        ConnectionError::ApplicationClosed(a) => {
            assert!(a.code().into_inner() == d_code, "application close code changed");
            assert!(same3(a.reason(), &d_reason), "application close reason changed");
            std::mem::forget(a);
        }
        _ => panic!("application close misattributed"),
    }
    kani::cover!(d_code == (1u64 << 62) - 1 && conn_kind == 1, "largest code, transport timed out meanwhile");
}

// @h props=C04 tier=quick t=1800 sub=not-connected-non-application
// @fn wtransport/src/error.rs ConnectionError::{with_driver_error,no_connect}, From<quinn::ConnectionError>
// @bound DriverError::NotConnected; connection close reason in {None, TimedOut, LocallyClosed, Reset, VersionMismatch, CidsExhausted} (symbolic choice); unwind 8
// @oracle none of these is reported as an application close: None and LocallyClosed -> LocallyClosed, TimedOut -> TimedOut, Reset / VersionMismatch -> QuicProto without a code, CidsExhausted -> CidsExhausted
// @assume MODEL ModelConnection (as above)
#[kani::proof]
#[kani::unwind(8)]
fn q_not_connected_plain() {
    let conn_kind: u8 = kani::any();
    kani::assume(conn_kind < 6);
    let conn = ModelConnection {
        close_reason: non_app_reason(conn_kind),
    };
    let e = ConnectionError::with_driver_error(DriverError::NotConnected, &conn);
    match conn_kind {
        0 | 2 => assert!(matches!(e, ConnectionError::LocallyClosed), "alive or locally closed"),
        1 => assert!(matches!(e, ConnectionError::TimedOut), "timeout misattributed"),
        3 | 4 => match e {
            ConnectionError::QuicProto(q) => assert!(q.code.is_none(), "code invented"),
            _ => panic!("reset or version mismatch misattributed"),
        },
        _ => assert!(matches!(e, ConnectionError::CidsExhausted), "cids exhausted misattributed"),
    }
    kani::cover!(conn_kind == 0, "connection still alive");
    kani::cover!(conn_kind == 5, "cids exhausted");
}

// @h props=C04 tier=quick t=1800 sub=not-connected-peer-application-close
// @fn wtransport/src/error.rs ConnectionError::{with_driver_error,no_connect}, From<quinn::ConnectionError> (ApplicationClosed arm), utils::varint_q2w
// @bound DriverError::NotConnected; the connection was closed by a QUIC application close with a symbolic 62-bit code and 3 symbolic reason bytes; unwind 8
// @oracle reported as ApplicationClosed with exactly the peer's code and reason bytes
// @assume MODEL ModelConnection (as above)
// @outside reasons longer than 3 bytes (copied by to_vec; the arm does not branch on them)
#[kani::proof]
#[kani::unwind(8)]
fn q_not_connected_peer_closed() {
    let q_code: u64 = kani::any();
    kani::assume(q_code < (1u64 << 62));
    let q_reason: [u8; 3] = kani::any();
    let conn = peer_closed(q_code, &q_reason);
    match ConnectionError::with_driver_error(DriverError::NotConnected, &conn) {
        ConnectionError::ApplicationClosed(a) => {
            assert!(a.code().into_inner() == q_code, "peer close code changed");
            assert!(same3(a.reason(), &q_reason), "peer close reason changed");
            std::mem::forget(a);
        }
        _ => panic!("peer application close misattributed"),
    }
    kani::cover!(q_code == (1u64 << 62) - 1, "largest code");
    kani::cover!(q_code == 0 && q_reason[0] == 0xff, "code 0, non-UTF-8 reason");
    std::mem::forget(conn);
}

// @h props=C04 tier=quick t=900 sub=quinn-transport-reasons
// @fn wtransport/src/error.rs From<quinn::ConnectionError> for ConnectionError (TransportError, ConnectionClosed arms)
// @bound concrete transport error PROTOCOL_VIOLATION / crypto(0x2a) with a 3-byte reason; concrete peer CONNECTION_CLOSE; unwind 8
// @oracle a transport-level failure is never reported as an application close: TransportError -> QuicProto with the numeric code, ConnectionClosed -> ConnectionClosed carrying the same quinn value
// @outside other transport codes and reasons (the arms do not branch on them)
#[kani::proof]
#[kani::unwind(8)]
fn q_quinn_transport_reasons() {
    let crypto: bool = kani::any();
    let code = if crypto {
        quinn::TransportErrorCode::crypto(0x2a)
    } else {
        quinn::TransportErrorCode::PROTOCOL_VIOLATION
    };
    let numeric: u64 = code.into();
    let te = quinn_proto::TransportError {
        code,
        frame: None,
        reason: String::from("bad"),
    };
    let e: ConnectionError = quinn::ConnectionError::TransportError(te).into();
    match e {
        ConnectionError::QuicProto(q) => {
            assert!(q.code.map(|c| c.into_inner()) == Some(numeric), "transport code changed");
            assert!(q.reason.len() == 3, "transport reason changed");
        }
        _ => panic!("transport error misattributed"),
    }
    let cc = quinn::ConnectionClose {
        error_code: code,
        frame_type: None,
        reason: bytes::Bytes::from_static(b"bye"),
    };
    let e: ConnectionError = quinn::ConnectionError::ConnectionClosed(cc.clone()).into();
    match e {
        ConnectionError::ConnectionClosed(c) => assert!(c.0 == cc, "peer transport close changed"),
        _ => panic!("peer transport close misattributed"),
    }
    kani::cover!(crypto, "crypto code");
    kani::cover!(!crypto, "protocol violation");
}

// @h props=C04 tier=quick t=900 expect=fail sub=twin
// @fn ConnectionError::with_driver_error
// @oracle deliberately wrong: NotConnected on a live connection is claimed to be TimedOut
#[kani::proof]
#[kani::unwind(8)]
fn q_error_twin_must_fail() {
    let conn = ModelConnection { close_reason: None };
    let e = ConnectionError::with_driver_error(DriverError::NotConnected, &conn);
    assert!(matches!(e, ConnectionError::TimedOut), "twin: wrong oracle");
}
