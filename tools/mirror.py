"""E2 mirror generator: re-hosts /repo source files / slices against environment models (filled in per crate)."""
import os
import re

GenError = Exception  # replaced by gen.GenError

GENERATORS = {}


def generate(crate, verif, dst, repo):
    g = GENERATORS.get(crate)
    if g is None:
        return {}
    return g(verif, dst, repo)


# ------------------------------------------------------------------------------------------------
# helpers
# ------------------------------------------------------------------------------------------------

def strip_test_modules(text):
    """drop `#[cfg(test)] mod xyz { ... }` blocks (brace matched): `cargo kani playback` builds in test mode"""
    out = []
    i = 0
    pat = re.compile(r"#\[cfg\(test\)\]\s*\n\s*(?:pub(?:\([a-z]+\))? )?mod \w+ \{")
    while True:
        m = pat.search(text, i)
        if not m:
            out.append(text[i:])
            break
        out.append(text[i:m.start()])
        j = match_brace(text, m.end() - 1)
        i = j + 1
    return "".join(out)


def match_brace(text, open_idx):
    """index of the brace closing text[open_idx] == '{' (skips strings, chars, comments)"""
    assert text[open_idx] == "{"
    depth = 0
    i = open_idx
    n = len(text)
    while i < n:
        c = text[i]
        if c == "/" and text.startswith("//", i):
            i = text.index("\n", i) if "\n" in text[i:] else n
            continue
        if c == "/" and text.startswith("/*", i):
            i = text.index("*/", i) + 2
            continue
        if c == '"':
            i += 1
            while text[i] != '"':
                i += 2 if text[i] == "\\" else 1
            i += 1
            continue
        if c == "r" and re.match(r'r#*"', text[i:]):
            m = re.match(r'r(#*)"', text[i:])
            end = text.index('"' + m.group(1), i + len(m.group(0)))
            i = end + 1 + len(m.group(1))
            continue
        if c == "'":
            m = re.match(r"'(\\.[^']*|[^'\\])'", text[i:])
            if m:
                i += len(m.group(0))
                continue
        if c == "{":
            depth += 1
        elif c == "}":
            depth -= 1
            if depth == 0:
                return i
        i += 1
    raise GenError("unbalanced braces")


def slice_item(text, header_regex, what):
    """source text of the item whose header matches header_regex (up to and including its brace-matched body);
    includes the attribute / doc lines directly above it"""
    ms = list(re.finditer(header_regex, text, re.M))
    if len(ms) != 1:
        raise GenError(f"slice '{what}': expected exactly one match of /{header_regex}/, found {len(ms)}")
    m = ms[0]
    start = m.start()
    # include preceding attributes / doc comments
    lines_before = text[:start].split("\n")
    k = len(lines_before) - 1  # index of the (partial) line where the match starts
    while k - 1 >= 0 and re.match(r"\s*(#\[|///|//!)", lines_before[k - 1]):
        k -= 1
    start = len("\n".join(lines_before[:k])) + (1 if k > 0 else 0)
    brace = text.index("{", m.end() - 1)
    end = match_brace(text, brace)
    line_no = text[:m.start()].count("\n") + 1
    return text[start:end + 1], line_no


def write_if_changed(path, content):
    os.makedirs(os.path.dirname(path), exist_ok=True)
    if os.path.exists(path) and open(path).read() == content:
        return
    with open(path, "w") as f:
        f.write(content)


def subst_once(text, old, new, fname):
    if text.count(old) != 1:
        raise GenError(f"{fname}: expected exactly one line `{old}`, found {text.count(old)}")
    return text.replace(old, new)


# ------------------------------------------------------------------------------------------------
# mproto: mirror of wtransport-proto
# ------------------------------------------------------------------------------------------------

def gen_mproto(verif, dst, repo):
    src_root = os.path.join(repo, "wtransport-proto", "src")
    gen_root = os.path.join(dst, "src", "gen")
    files = []
    for root, _, fs in os.walk(src_root):
        for f in fs:
            if f.endswith(".rs") and f != "lib.rs":
                files.append(os.path.relpath(os.path.join(root, f), src_root))
    subs = {
        "qpack.rs": [("use std::collections::HashMap;", "use crate::model_map::HashMap;")],
        "headers.rs": [("use std::collections::HashMap;", "use crate::model_map::HashMap;")],
        "settings.rs": [("use std::collections::HashMap;", "use crate::model_map::HashMap;"),
                        ("use std::collections::hash_map;", "use crate::model_map::hash_map;")],
    }
    for rel in sorted(files):
        text = open(os.path.join(src_root, rel)).read()
        text = strip_test_modules(text)
        for old, new in subs.get(rel, []):
            text = subst_once(text, old, new, rel)
        if "std::collections::HashMap" in text or "std::collections::hash_map" in text:
            raise GenError(f"{rel}: unexpected remaining std HashMap use")
        write_if_changed(os.path.join(gen_root, rel), text)
    # remove stale generated files
    for root, _, fs in os.walk(gen_root):
        for f in fs:
            rel = os.path.relpath(os.path.join(root, f), gen_root)
            if rel not in files:
                os.remove(os.path.join(root, f))
    return {
        "rehosted": [f"wtransport-proto/src/{f}" for f in sorted(files)],
        "substitutions": {k: [o for o, _ in v] for k, v in subs.items()},
        "models": ["model_map::HashMap (fixed-capacity association list, CAP=6, insertion beyond CAP assumed away)",
                   "models/httlib-huffman (invertible run-length model coder; real Huffman tables outside the claim)"],
    }


GENERATORS["mproto"] = gen_mproto


# ------------------------------------------------------------------------------------------------
# mdrv: driver units of the wtransport crate
# ------------------------------------------------------------------------------------------------

def slice_all(text, header_regex, what, expect):
    ms = list(re.finditer(header_regex, text, re.M))
    if len(ms) != expect:
        raise GenError(f"slice '{what}': expected {expect} matches of /{header_regex}/, found {len(ms)}")
    out = []
    for m in ms:
        lines_before = text[:m.start()].split("\n")
        k = len(lines_before) - 1
        while k - 1 >= 0 and re.match(r"\s*(#\[|///|//!)", lines_before[k - 1]):
            k -= 1
        start = len("\n".join(lines_before[:k])) + (1 if k > 0 else 0)
        brace = text.index("{", m.end() - 1)
        end = match_brace(text, brace)
        out.append((text[start:end + 1], text[:m.start()].count("\n") + 1))
    return out


def gen_mdrv(verif, dst, repo):
    # mdrv compiles against the mproto mirror: regenerate it first
    import gen as _gen
    _gen.prepare_crate("mproto", verif, os.path.dirname(os.path.dirname(dst)), repo)
    w = os.path.join(repo, "wtransport", "src")
    gen_root = os.path.join(dst, "src", "gen")
    sliced = {}

    def rd(rel):
        return open(os.path.join(w, rel)).read()

    err = rd("error.rs")
    items = []
    for rx, what in [(r"^pub struct ApplicationClose \{", "ApplicationClose"),
                     (r"^impl ApplicationClose \{", "impl ApplicationClose"),
                     (r"^pub enum StreamWriteError \{", "StreamWriteError"),
                     (r"^pub enum StreamReadError \{", "StreamReadError"),
                     (r"^pub enum StreamReadExactError \{", "StreamReadExactError")]:
        t, ln = slice_item(err, rx, what)
        items.append(t)
        sliced[f"wtransport/src/error.rs:{ln} {what}"] = len(t)
    write_if_changed(os.path.join(gen_root, "error_items.rs"), "\n\n".join(items) + "\n")

    drv = rd("driver/mod.rs")
    t, ln = slice_item(drv, r"^pub enum DriverError \{", "DriverError")
    sliced[f"wtransport/src/driver/mod.rs:{ln} DriverError"] = len(t)
    write_if_changed(os.path.join(gen_root, "driver_error.rs"), t + "\n")

    # the close-code match at the end of Worker::run: an expression, sliced from `match &error {` inside `pub async fn run(mut self)`
    run_fn, run_ln = slice_item(drv, r"^        pub async fn run\(mut self\)", "Worker::run")
    ms = list(re.finditer(r"match &error \{", run_fn))
    if len(ms) != 1:
        raise GenError("Worker::run: expected exactly one `match &error {`")
    end = match_brace(run_fn, ms[0].end() - 1)
    expr = run_fn[ms[0].start():end + 1]
    if "self.quic_connection" not in expr or ".await" in expr:
        raise GenError("Worker::run close match has an unexpected shape")
    sliced[f"wtransport/src/driver/mod.rs:{run_ln} Worker::run close-code match"] = len(expr)
    write_if_changed(os.path.join(gen_root, "worker_close_match.rs"), "{ let error = error; " + expr + " }\n")

    utils = rd("driver/utils.rs")
    t, ln = slice_item(utils, r"^pub fn varint_w2q\(", "varint_w2q")
    sliced[f"wtransport/src/driver/utils.rs:{ln} varint_w2q"] = len(t)
    t2, ln2 = slice_item(utils, r"^pub enum TrySendError<T> \{", "TrySendError")
    sliced[f"wtransport/src/driver/utils.rs:{ln2} TrySendError"] = len(t2)
    write_if_changed(os.path.join(gen_root, "utils_items.rs"), t + "\n\n" + t2 + "\n")

    # Worker::handle_uni_h3_stream / handle_bi_h3_stream: methods sliced into `impl WorkerH`; the
    # `#[instrument(..)]` attribute (tracing span, no effect on behaviour) is dropped
    hu, lnu = slice_item(drv, r"^        fn handle_uni_h3_stream\(", "Worker::handle_uni_h3_stream")
    hb, lnb = slice_item(drv, r"^        fn handle_bi_h3_stream\(", "Worker::handle_bi_h3_stream")
    hb2 = re.sub(r"^\s*#\[instrument\([^\n]*\)\]\n", "", hb, flags=re.M)
    if "#[instrument" in hb2 or hb2.count("fn handle_bi_h3_stream(") != 1:
        raise GenError("handle_bi_h3_stream slice has an unexpected shape")
    sliced[f"wtransport/src/driver/mod.rs:{lnu} Worker::handle_uni_h3_stream"] = len(hu)
    sliced[f"wtransport/src/driver/mod.rs:{lnb} Worker::handle_bi_h3_stream (#[instrument] attribute dropped)"] = len(hb2)
    write_if_changed(os.path.join(gen_root, "worker_handlers.rs"),
                     "impl WorkerH {\n" + hu.replace("fn handle_uni_h3_stream(", "pub fn handle_uni_h3_stream(", 1) + "\n\n"
                     + hb2.replace("fn handle_bi_h3_stream(", "pub fn handle_bi_h3_stream(", 1) + "\n}\n")

    # hand-off code: the three accepting branches of the worker and the Driver methods the application awaits.
    # Substitution: parameter type `&quinn::Connection` -> `&ModelConnection` (3 sites)
    acc_w = []
    for fn in ("accept_uni", "accept_bi", "accept_datagram"):
        t, ln = slice_item(drv, r"^        async fn %s\(" % fn, "worker::Worker::" + fn)
        if t.count("quic_connection: &quinn::Connection") != 1:
            raise GenError(f"worker::{fn}: expected one `quic_connection: &quinn::Connection` parameter")
        t = t.replace("quic_connection: &quinn::Connection", "quic_connection: &ModelConnection")
        t = t.replace("async fn %s(" % fn, "pub async fn %s(" % fn, 1)
        sliced[f"wtransport/src/driver/mod.rs:{ln} worker::Worker::{fn} (parameter type &quinn::Connection -> &ModelConnection)"] = len(t)
        acc_w.append(t)
    write_if_changed(os.path.join(gen_root, "accept_worker.rs"), "impl WorkerA {\n" + "\n\n".join(acc_w) + "\n}\n")
    acc_d = []
    for fn, rx in (("accept_uni", r"^    pub async fn accept_uni\("), ("accept_bi", r"^    pub async fn accept_bi\("),
                   ("receive_datagram", r"^    pub async fn receive_datagram\("), ("result", r"^    async fn result\(&self\)")):
        t, ln = slice_item(drv, rx, "Driver::" + fn)
        sliced[f"wtransport/src/driver/mod.rs:{ln} Driver::{fn}"] = len(t)
        acc_d.append(t)
    write_if_changed(os.path.join(gen_root, "accept_driver.rs"), "impl DriverH {\n" + "\n\n".join(acc_d) + "\n}\n")

    # control-plane readers under the worker's select loop (C05): the harness plays run_impl's outer loop and run_control_streams' select, so the generator first makes sure that loop still has the shape the harness stands
    # for: `loop { tokio::select! { ... error = Self::run_control_streams(...) => ... } }` with the call INSIDE the loop
    ri, ln_ri = slice_item(drv, r"^        async fn run_impl\(&mut self\)", "worker::Worker::run_impl")
    m_loop = re.search(r"\n\s*loop \{\s*\n\s*tokio::select! \{", ri)
    m_call = re.search(r"error = Self::run_control_streams\(", ri)
    if not m_loop or not m_call or m_call.start() < m_loop.start():
        raise GenError("run_impl no longer creates run_control_streams(..) inside `loop { tokio::select! { .. } }`: "
                       "the C05 harness (which re-creates the future per iteration, as that loop does) does not apply")
    sliced[f"wtransport/src/driver/mod.rs:{ln_ri} worker::Worker::run_impl (shape check only: run_control_streams is created inside the select loop)"] = len(ri)
    t, ln = slice_item(drv, r"^        async fn run_control_streams\(", "worker::Worker::run_control_streams")
    if not re.search(r"tokio::select! \{[^}]*error = remote_settings\.run\(\) => error", t, re.S):
        raise GenError("run_control_streams is no longer a tokio::select! with the branch `error = remote_settings.run() => error`: "
                       "the C05 harness does not apply")
    sliced[f"wtransport/src/driver/mod.rs:{ln} worker::Worker::run_control_streams (shape check only: a select! over the run() futures created in place)"] = len(t)
    st = rd("driver/streams/settings.rs")
    if not re.search(r"async fn read_frame<'a>\(&mut self\)[^{]*\{.*?match stream\.read_frame\(\)\.await \{", st, re.S) \
            or not re.search(r"pub async fn run\(&mut self\) -> DriverError \{\s*loop \{\s*let frame = match self\.read_frame\(\)\.await", st, re.S):
        raise GenError("RemoteSettingsStream::{run,read_frame} no longer await the stream's read_frame directly: the C05 harness does not apply")
    sm2 = rd("driver/streams/mod.rs")
    if sm2.count("self.proto.read_frame_async(&mut self.stream).await") < 1:
        raise GenError("driver::streams::*::read_frame no longer delegates to proto.read_frame_async(&mut self.stream).await: the C05 harness does not apply")
    sliced["wtransport/src/driver/streams/settings.rs RemoteSettingsStream::{run,read_frame}, driver/streams/mod.rs StreamUniRemoteH3::read_frame (shape check only: `.await` delegations)"] = 0
    pst = open(os.path.join(repo, "wtransport-proto", "src", "stream.rs")).read()
    if len(re.findall(r"loop \{\s*match Frame::read_async\(reader\)\.await \{", pst)) < 3:
        raise GenError("proto read_frame_async no longer is `loop { match Frame::read_async(reader).await {..} }`: the C05 harness does not apply")

    conn = rd("connection.rs")
    t, ln = slice_item(conn, r"^    pub fn max_datagram_size\(&self\)", "Connection::max_datagram_size")
    sliced[f"wtransport/src/connection.rs:{ln} Connection::max_datagram_size"] = len(t)
    extra, names = with_local_fns(t, conn)
    if names:
        sliced["wtransport/src/connection.rs helper fns pulled in"] = sorted(names)
    write_if_changed(os.path.join(gen_root, "max_datagram_size.rs"), extra + "impl Connection {\n" + t + "\n}\n")

    cfg = rd("config.rs")
    two = slice_all(cfg, r"^    pub fn max_idle_timeout\(", "max_idle_timeout", 2)
    helper_seen = set()
    for (t, ln), name in zip(two, ["server", "client"]):
        sliced[f"wtransport/src/config.rs:{ln} max_idle_timeout ({name})"] = len(t)
        extra, names = with_local_fns(t, cfg, helper_seen)   # a helper shared by both builders is emitted once
        if names:
            sliced["wtransport/src/config.rs helper fns pulled in"] = sorted(helper_seen)
        write_if_changed(os.path.join(gen_root, f"max_idle_timeout_{name}.rs"),
                         extra + "impl %sBuilder {\n" % name.capitalize() + t + "\n}\n")

    return {
        "rehosted": ["wtransport/src/driver/streams/connect.rs", "wtransport/src/driver/streams/settings.rs",
                     "wtransport/src/driver/streams/qpack.rs", "wtransport/src/datagram.rs"],
        "sliced": sliced,
        "models": ["models/tracing (no-op macros)", "models/tokio (sync::watch as a shared cell)",
                   "kani/mdrv/src/models_local/streams.rs (scripted StreamSession / StreamUniRemoteH3 / StreamUniLocalH3)",
                   "slices.rs ModelQuicConnection (max_datagram_size: any Option<usize>; close() recorded), ModelTransportConfig (records max_idle_timeout)",
                   "wtransport-proto = mproto mirror (model map, model Huffman)"],
    }


GENERATORS["mdrv"] = gen_mdrv


# ------------------------------------------------------------------------------------------------
# mx509: verify_server_cert slice (C10)
# ------------------------------------------------------------------------------------------------

def gen_mx509(verif, dst, repo):
    tls = open(os.path.join(repo, "wtransport", "src", "tls.rs")).read()
    m = re.findall(r"^\s*const SELF_MAX_VALIDITY: time::Duration = [^;]+;", tls, re.M)
    if len(m) != 1:
        raise GenError("tls.rs: expected exactly one SELF_MAX_VALIDITY constant")
    const_line = m[0].strip()
    impl_text, impl_ln = slice_item(tls, r"^    impl ServerCertVerifier for ServerHashVerification \{", "impl ServerCertVerifier for ServerHashVerification")
    fn_text, rel_ln = slice_item(impl_text, r"^        fn verify_server_cert\(", "verify_server_cert")
    ln = impl_ln + rel_ln - 1
    if fn_text.count("fn verify_server_cert(") != 1:
        raise GenError("verify_server_cert slice has an unexpected shape")
    fn_text = fn_text.replace("fn verify_server_cert(", "pub fn verify_server_cert(", 1)
    out = "impl ServerHashVerification {\n    " + const_line + "\n\n" + fn_text + "\n}\n"
    write_if_changed(os.path.join(dst, "src", "gen", "sliced.rs"), out)
    return {
        "sliced": {f"wtransport/src/tls.rs:{ln} ServerHashVerification::verify_server_cert": len(fn_text),
                   "wtransport/src/tls.rs SELF_MAX_VALIDITY": const_line},
        "models": ["models/x509-parser (certificate = function of 52 DER bytes)", "models/time (whole seconds)",
                   "models/sha2 (digest carried by the model certificate)", "ModelSet (<= 2 pinned hashes)"],
    }


GENERATORS["mx509"] = gen_mx509


# ------------------------------------------------------------------------------------------------
# helper: pull in file-level free functions a slice calls (realistic refactorings extract helpers)
# ------------------------------------------------------------------------------------------------

def with_local_fns(slice_text, file_text, seen=None):
    """returns (extra_items_text, names): source of file-level `fn` items (indentation 0) of the same file that the
    slice calls, transitively"""
    seen = set() if seen is None else seen
    extra = []
    for name in sorted(set(re.findall(r"\b([a-z_][a-z0-9_]*)\s*(?:::<[^>]*>)?\(", slice_text))):
        if name in seen:
            continue
        ms = list(re.finditer(r"^(?:pub(?:\([a-z]+\))? )?(?:const )?(?:async )?fn %s\b" % re.escape(name), file_text, re.M))
        if len(ms) != 1:
            continue
        seen.add(name)
        t, _ = slice_item(file_text, r"^(?:pub(?:\([a-z]+\))? )?(?:const )?(?:async )?fn %s\b" % re.escape(name), name)
        sub, _ = with_local_fns(t, file_text, seen)
        extra.append(sub + t)
    return ("\n\n".join(e for e in extra if e) + ("\n\n" if extra else "")), seen


# ------------------------------------------------------------------------------------------------
# mquic: QuicSendStream / QuicRecvStream method slices (C06)
# ------------------------------------------------------------------------------------------------

def slice_method(impl_text, name, what):
    return slice_item(impl_text, r"^    pub (?:async )?fn %s\(" % name, what)[0]


def gen_mquic(verif, dst, repo):
    w = os.path.join(repo, "wtransport", "src")
    gen_root = os.path.join(dst, "src", "gen")
    sliced = {}
    # error.rs is re-hosted as a whole; the only change is the type of the three `quic_connection` parameters
    # (`&quinn::Connection` cannot be constructed without a live connection): a model with `close_reason()`
    err = strip_test_modules(open(os.path.join(w, "error.rs")).read())
    n_sub = err.count("quic_connection: &quinn::Connection")
    if n_sub != 3:
        raise GenError(f"error.rs: expected 3 `quic_connection: &quinn::Connection` parameters, found {n_sub}")
    err = err.replace("quic_connection: &quinn::Connection", "quic_connection: &crate::ModelConnection")
    # the harness module is attached as a child of `error` so that it can read the private fields of H3Error / QuicProtoError
    err += '\n#[cfg(kani)]\n#[path = "../error/vh_error.rs"]\nmod vh_error;\n'
    write_if_changed(os.path.join(gen_root, "error.rs"), err)
    sliced["wtransport/src/error.rs (whole file re-hosted; 3 parameter types `&quinn::Connection` -> `&crate::ModelConnection`)"] = len(err)
    drv = open(os.path.join(w, "driver", "mod.rs")).read()
    t, ln = slice_item(drv, r"^pub enum DriverError \{", "DriverError")
    sliced[f"wtransport/src/driver/mod.rs:{ln} DriverError"] = len(t)
    write_if_changed(os.path.join(gen_root, "driver_error.rs"), t + "\n")

    utils = open(os.path.join(w, "driver", "utils.rs")).read()
    us = []
    for fn in ("varint_q2w", "varint_w2q"):
        t, ln = slice_item(utils, r"^pub fn %s\(" % fn, fn)
        us.append(t)
        sliced[f"wtransport/src/driver/utils.rs:{ln} {fn}"] = len(t)
    write_if_changed(os.path.join(gen_root, "utils_items.rs"), "\n\n".join(us) + "\n")

    sm = open(os.path.join(w, "driver", "streams", "mod.rs")).read()
    send_impl, ln_s = slice_item(sm, r"^impl QuicSendStream \{", "impl QuicSendStream")
    recv_impl, ln_r = slice_item(sm, r"^impl QuicRecvStream \{", "impl QuicRecvStream")
    out = "impl QuicSendStream {\n"
    for fn in ("finish", "stopped", "reset"):
        t = slice_method(send_impl, fn, "QuicSendStream::" + fn)
        sliced[f"wtransport/src/driver/streams/mod.rs QuicSendStream::{fn}"] = len(t)
        out += t + "\n\n"
    out += "}\n\nimpl QuicRecvStream {\n"
    for fn in ("read", "read_exact", "stop"):
        t = slice_method(recv_impl, fn, "QuicRecvStream::" + fn)
        sliced[f"wtransport/src/driver/streams/mod.rs QuicRecvStream::{fn}"] = len(t)
        out += t + "\n\n"
    out += "}\n\n"
    for rx, what in [(r"^impl From<quinn::WriteError> for StreamWriteError \{", "From<quinn::WriteError>"),
                     (r"^impl From<quinn::ReadError> for StreamReadError \{", "From<quinn::ReadError>")]:
        t, ln = slice_item(sm, rx, what)
        sliced[f"wtransport/src/driver/streams/mod.rs:{ln} {what}"] = len(t)
        out += t + "\n\n"
    write_if_changed(os.path.join(gen_root, "stream_items.rs"), out)
    return {"sliced": sliced,
            "models": ["ModelSendStream / ModelRecvStream (results of quinn's finish/stopped/reset/read/read_exact/stop chosen by the harness)"]}


GENERATORS["mquic"] = gen_mquic
