"""E2 mirror generator: re-hosts /repo source files / slices against environment models (filled in per crate)."""
import os
import re

GenError = Exception  # replaced by gen.GenError

GENERATORS = {}


def generate(crate, verif, dst, repo):
    g = GENERATORS.get(crate)
    if g is None:
        return {}
    return g(verif, dst, repo)
