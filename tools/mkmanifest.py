#!/usr/bin/env python3
"""Regenerates /verif/MANIFEST.json from the harness registry + the per-property texts below."""
import json
import os
import subprocess
import sys

VERIF = os.path.dirname(os.path.dirname(os.path.abspath(__file__)))
sys.path.insert(0, os.path.join(VERIF, "tools"))
import runner  # noqa: E402

TECH = "bounded symbolic model checking of the compiled real code (Kani 0.68 -> CBMC 6.11 / CaDiCaL SAT)"
TECH_E3 = TECH + " + SMT-LIB queries generated from the nightly MIR dump (cvc5 --solve-bv-as-int, z3)"

CLAIMS = {
    "C01": ("claimed for the preamble mechanism", "§6 C01"),
    "C03": ("claimed: datagram codec, size identity, max_datagram_size arithmetic", "§6 C03"),
    "C04": ("claimed for the mapping chain capsule/FIN/reset/QUIC close -> ConnectionError", "§6 C04"),
    "C05": ("claimed for one step of the hazard the property names, on the control stream's SETTINGS frame: the frame arrives in two pieces (cut after 1, 2, 3 bytes) and the read future is either resumed (segmentation only) or dropped and re-created, which is what Worker::run_impl's select loop does whenever another branch completes in between; the generator checks that run_impl / run_control_streams / RemoteSettingsStream / the stream wrappers still have that shape. On the pinned tree the dropped-and-re-created case loses the consumed bytes: genuine defect D5, recorded in known_findings.json (KNOWN-FINDING, exit 0) with an end-to-end native demonstration in findings/D5. The request stream, the session stream and the real scheduler are outside", "§11.8"),
    "C06": ("claimed for the error-code conversions", "§6 C06"),
    "C08": ("claimed for the hand-off steps taken one future at a time: the worker's accepting branches and Driver::accept_uni/accept_bi/receive_datagram lose nothing when dropped at any suspension point, route every pulled stream to exactly one queue and return only the first queued stream of the asked-for session; the composition of these steps under the tokio scheduler, real channels and quinn is outside", "§11.7"),
    "C10": ("claimed for the decision logic of verify_server_cert over model certificates", "§6 C10"),
    "C11": ("claimed: every decoder total, exact and invariant-preserving within the byte bounds", "§6 C11"),
    "C12": ("claimed for the stream typestates and the per-stream runners", "§6 C12"),
    "C13": ("claimed: unknown/GREASE frames, settings, capsules skipped whole", "§6 C13"),
    "C14": ("claimed: decode∘encode = id, exact sizes, shortest forms, untouched too-small destinations", "§6 C14"),
    "C15": ("claimed: sync = buffered = async; prefixes never consumed", "§6 C15"),
    "C16": ("claimed for the byte producers against an independent RFC reference codec", "§6 C16"),
    "C17": ("claimed for the identifier algebra (all 2^62 ids)", "§6 C17"),
    "C18": ("claimed: status range through every constructor; admission predicates", "§6 C18"),
    "C20": ("claimed for the two pure mappings (bind presets, idle-timeout refusal)", "§6 C20"),
}

# properties whose check is complete enough to be registered (others are listed as pending)
READY = {"C01", "C03", "C04", "C05", "C06", "C08", "C10", "C11", "C12", "C13", "C14", "C15", "C16", "C17", "C18", "C20"}

NOT_APPLICABLE = {
    "C02": "end-to-end over Endpoint::connect / IncomingSession (quinn, tokio, DNS) and the url crate's parser; the only candidate kernel, the whole-function QPACK header pipeline over strings, exhausted 20 GB at 6 symbolic bytes; its kernels are decided under C14/C16, admission and status under C18 (DESIGN §8)",
    "C07": "liveness over peer behaviour, bounded tokio channels with reserved permits and spawned tasks; no encodable kernel owned by wtransport (DESIGN §8)",
    "C09": "bounded-time completion for all schedules (liveness) over tokio watch/mpsc and quinn; the encodable clauses (quinn cause / driver result -> wtransport cause; accept futures report the worker's stored result) are decided under C04 and C08 (DESIGN §8, §11.7)",
    "C19": "rcgen / x509-parser / pem / tokio::fs are crypto, ASN.1 and file-I/O libraries out of reach of symbolic execution; the digest text codec is dominated by std formatting / str::split / trim and did not finish at any useful bound (20 min and 14 min probes) (DESIGN §8)",
}


def main():
    reg = runner.load_registry()
    props = sorted(set(p for h in reg for p in h.props))
    commits = subprocess.run(["git", "-C", "/repo", "log", "--format=%h %s"], capture_output=True, text=True).stdout.splitlines()
    hook_commits = [c.split()[0] for c in commits if "verif hook" in c]
    checks = []
    not_app = []
    all_ids = [json.loads(l)["id"] for l in open(os.path.join(VERIF, "properties.jsonl"))]
    for pid in all_ids:
        if pid in NOT_APPLICABLE:
            not_app.append({"property_id": pid, "reason": NOT_APPLICABLE[pid]})
            continue
        hs = [h for h in reg if pid in h.props]
        if not hs or pid not in READY:
            not_app.append({"property_id": pid, "reason": "check not built yet (framework under construction; DESIGN.md §10)"})
            continue
        claim, ref = CLAIMS[pid]
        kinds = sorted(set(h.kind for h in hs))
        crates = sorted(set(h.crate for h in hs))
        outside = sorted(set(h.outside for h in hs if h.outside))
        nq = sum(1 for h in hs if h.tier == "quick")
        checks.append({
            "property_id": pid,
            "quick_cmd": f"bin/check {pid} --tier quick",
            "thorough_cmd": f"bin/check {pid} --tier thorough",
            "evidence_file": f"evidence/{pid}.json",
            "replay_cmd_template": f"bin/check {pid} --replay {{path}}",
            "engine": "+".join(crates),
            "level_claimed": {
                "category": "model_checking",
                "text": f"{claim}. Bounded model checking of the real compiled code: within each stated bound the solver decides the "
                        f"assertion for every input (no sampling); nothing is claimed outside the bounds. {nq} quick / {len(hs)} thorough solver queries; "
                        "each must be non-vacuous (all kani::cover! witnesses SATISFIED, twin harness FAILED); counterexamples are replayed natively "
                        "(cargo kani playback) before a VIOLATION is printed; time-outs / OOM / unwinding failures are exit 2, never success.",
                "design_ref": ref,
            },
            "level_note": "trusted base: rustc + Kani MIR->goto translation, CBMC, CaDiCaL; the stubs and assumptions listed per harness in the evidence "
                          "(io::Error conversion stub, UTF-8 validator model, Huffman path cut, environment models of E2 mirror crates). Outside the claim: "
                          + ("; ".join(outside) if outside else "see DESIGN.md section") + ".",
            "technique": TECH_E3 if "smt" in kinds else TECH,
        })
    m = {
        "version": 1,
        "setup_cmd": "true",
        "hooks": {
            "guard": "wtransport_verif",
            "enable": "RUSTFLAGS=\"--cfg wtransport_verif\" (set by bin/check for cargo kani only)",
            "baseline_off_cmd": "cd /repo && cargo test --workspace --no-fail-fast --offline",
            "source_commits": hook_commits,
            "add_only": True,
        },
        "engines": [
            {"name": "E1", "path": "kani/proto, kani/wt", "serves_properties": sorted(set(p for h in reg if h.crate in ("proto", "wt") for p in h.props)),
             "kind_free_text": "Kani harness crates with path dependencies on /repo; private kernels reached through cfg(wtransport_verif) re-exports"},
            {"name": "E2", "path": "kani/mproto, kani/mdrv, kani/mx509, kani/mquic, models/", "serves_properties": sorted(set(p for h in reg if h.crate.startswith("m") for p in h.props)),
             "kind_free_text": "mirror crates generated at run time: real /repo source files re-hosted (#[path]/sliced) against environment models"},
            {"name": "E3", "path": "tools/e3.py, kani/e3native", "serves_properties": sorted(set(p for h in reg if h.crate == "e3" for p in h.props)),
             "kind_free_text": "nightly MIR dump -> SMT-LIB2 for loop-free integer kernels; cvc5 + z3"},
        ],
        "checks": checks,
        "notes": "See DESIGN.md. known_findings.json lists one recorded finding (D5, property C05: torn control-stream frame; demonstration in findings/D5) and the four defects repaired by fix: commits.",
        "not_applicable": not_app,
    }
    json.dump(m, open(os.path.join(VERIF, "MANIFEST.json"), "w"), indent=1)
    print("claimed:", [c["property_id"] for c in checks])
    print("not applicable:", [n["property_id"] for n in not_app])


if __name__ == "__main__":
    main()
