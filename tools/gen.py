"""
Crate preparation for the runner: every check rebuilds its harness crates from /verif/kani/<crate>
(static harness sources, path-dependent on /repo) and, for E2 mirror crates, regenerates the re-hosted
copies / slices of /repo's *current* source files (see mirror.py).
"""
import fcntl
import os
import shutil
import subprocess

import mirror


class GenError(Exception):
    pass


mirror.GenError = GenError

# crates that share compiled dependencies share a target-dir family
FAMILY = {
    "proto": "proto",
    "wt": "wt",
    "mquic": "wt",
}


def target_family(crate):
    return FAMILY.get(crate, crate)


def crate_kani_flags(crate):
    return []


_release = None


def playback_supports_release():
    global _release
    if _release is None:
        try:
            out = subprocess.run(["cargo", "kani", "playback", "--help"], capture_output=True, text=True, timeout=60).stdout
            _release = "--release" in out
        except Exception:
            _release = False
    return _release


def prepare_crate(crate, verif, work, repo):
    """copy /verif/kani/<crate> to .work/crates/<crate>, bring in /repo's Cargo.lock, run the mirror generator"""
    src = os.path.join(verif, "kani", crate)
    dst = os.path.join(work, "crates", crate)
    os.makedirs(os.path.dirname(dst), exist_ok=True)
    lock_path = dst + ".lock"
    with open(lock_path, "w") as lk:
        fcntl.flock(lk, fcntl.LOCK_EX)
        os.makedirs(dst, exist_ok=True)
        r = subprocess.run(["rsync", "-a", "--delete", "--exclude", "Cargo.lock", "--exclude", "gen", "--exclude", "rehost", "--exclude", "target",
                            src + "/", dst + "/"], capture_output=True, text=True)
        if r.returncode != 0:
            raise GenError("rsync failed: " + r.stderr)
        note = mirror.generate(crate, verif, dst, repo) or {}
        lock_src = os.path.join(verif, "kani", crate, "Cargo.lock.pinned")
        if not os.path.exists(lock_src):
            lock_src = os.path.join(repo, "Cargo.lock")
        dst_lock = os.path.join(dst, "Cargo.lock")
        if not os.path.exists(dst_lock):
            shutil.copy(lock_src, dst_lock)
        return note
