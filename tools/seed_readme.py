#!/usr/bin/env python3
"""regenerates /verif/seeded/README.md from the meta.json files (run tools/seed_meta.py first)"""
import json
import os

root = "/verif/seeded"
rows = []
for d in sorted(os.listdir(root)):
    mp = os.path.join(root, d, "meta.json")
    if not os.path.exists(mp):
        continue
    m = json.load(open(mp))
    det = m.get("detection", {})
    exits = {k: v["exit"] for k, v in det.items()}
    verdict = "caught" if "1" in exits.values() else ("inconclusive" if "2" in exits.values() else "missed")
    runs = ", ".join(f"{k}: exit {v}" for k, v in sorted(exits.items()))
    summ = (m.get("summary") or "").replace("|", "\\|").replace("\n", " ")[:150]
    rows.append(f"| {d} | {m.get('breaks_property')} | {verdict} | {runs} | {summ} |")
head = """# Seeded changes

One directory per confirmed change: `patch.diff` (apply with `git -C /repo apply`), `seed_demo.rs` (the sub-agent's demonstration), `meta.json` (what it breaks, what it needs, what was run), the confirmation logs (`suite_with_change.log`, `demo_with_change.log`, `demo_without_change.log`) and the detection logs `detect_<property>.log` (`tools/seed_run.sh`). See DESIGN.md 11.4.

| seed | property | verdict | detection runs | summary |
|---|---|---|---|---|
"""
open(os.path.join(root, "README.md"), "w").write(head + "\n".join(rows) + "\n")
print(len(rows), "seeds")
