#!/usr/bin/env python3
"""
/verif runner: solver-based checking of the real wtransport code.

  bin/check <Cxx> [--tier quick|thorough] [--jobs N] [--only REGEX] [--replay PATH] [--keep]

Exit codes: 0 = property held on everything explored (KNOWN-FINDING lines possible),
            1 = violation reproduced natively (line "VIOLATION property=<id> replay=<path>"),
            2 = inconclusive (time-out, out of memory, unwinding bound too small, vacuous harness,
                counterexample that does not replay, broken generator) -- never reported as success.
"""
import argparse
import hashlib
import json
import os
import queue
import re
import resource
import shutil
import subprocess
import sys
import threading
import time

VERIF = os.path.dirname(os.path.dirname(os.path.abspath(__file__)))
REPO = os.environ.get("VERIF_REPO", "/repo")
WORK = os.path.join(VERIF, ".work")
GUARD = "wtransport_verif"

sys.path.insert(0, os.path.join(VERIF, "tools"))
import gen  # noqa: E402


# ------------------------------------------------------------------------------------------------
# registry: harness annotations parsed from the harness sources
# ------------------------------------------------------------------------------------------------

ANNOT_RE = re.compile(
    r"((?:[ \t]*//[ \t]*@[^\n]*\n)+)((?:[ \t]*#\[[^\n]*\n)*)[ \t]*(?:(?:pub(?:\([a-z]+\))? )?fn (\w+)|\w+!\(\s*(\w+)\s*,)"
)


class Harness:
    def __init__(self, crate, file, name, meta):
        self.crate = crate
        self.file = file
        self.name = name
        self.props = meta.get("props", "").split(",")
        self.tier = meta.get("tier", "quick")
        self.timeout = int(meta.get("t", "600"))
        self.mem_gb = int(meta.get("mem", "16"))
        self.expect = meta.get("expect", "pass")  # pass | fail (twin)
        self.kind = meta.get("kind", "kani")
        self.fns = meta.get("fn", "")
        self.bound = meta.get("bound", "")
        self.oracle = meta.get("oracle", "")
        self.outside = meta.get("outside", "")
        self.assumes = meta.get("assume", "")
        self.allow_unsat_covers = meta.get("covers", "all") == "any"
        self.sub = meta.get("sub", "")  # sub-claim label within the property
        # per-loop unwinding bounds: "substr:N substr2:M" (loop ids resolved with goto-instrument --show-loops)
        self.unwindset = meta.get("unwindset", "")

    def __repr__(self):
        return f"<{self.crate}::{self.name}>"


def parse_meta(block):
    meta = {}
    for line in block.splitlines():
        line = line.strip()
        m = re.match(r"//\s*@(\w+)\s*(.*)$", line)
        if not m:
            continue
        key, rest = m.group(1), m.group(2).strip()
        if key == "h":
            for kv in rest.split():
                if "=" in kv:
                    k, v = kv.split("=", 1)
                    meta[k] = v
        else:
            meta[key] = (meta.get(key, "") + " " + rest).strip()
    return meta


def load_registry():
    hs = []
    kroot = os.path.join(VERIF, "kani")
    for crate in sorted(os.listdir(kroot)):
        src = os.path.join(kroot, crate, "src")
        if not os.path.isdir(src):
            continue
        for root, _, files in os.walk(src):
            for f in sorted(files):
                if not f.endswith(".rs"):
                    continue
                p = os.path.join(root, f)
                text = open(p).read()
                for m in ANNOT_RE.finditer(text):
                    meta = parse_meta(m.group(1))
                    if "props" not in meta:
                        continue
                    hs.append(Harness(crate, os.path.relpath(p, os.path.join(kroot, crate)), m.group(3) or m.group(4), meta))
    import e3
    hs.extend(e3.harnesses())
    return hs


# ------------------------------------------------------------------------------------------------
# running cargo kani
# ------------------------------------------------------------------------------------------------

def sh_env():
    env = dict(os.environ)
    env["CARGO_NET_OFFLINE"] = "true"
    env["RUSTFLAGS"] = f"--cfg {GUARD}"
    env.pop("RUSTUP_TOOLCHAIN", None)
    env["CARGO_TERM_COLOR"] = "never"
    return env


def limit_mem(gb):
    def f():
        lim = gb * 1024 * 1024 * 1024
        resource.setrlimit(resource.RLIMIT_AS, (lim, lim))
        os.setsid()
    return f


def run_cmd(cmd, cwd, timeout, mem_gb, log_path, env=None):
    t0 = time.time()
    with open(log_path, "w") as log:
        p = subprocess.Popen(
            ["/usr/bin/time", "-f", "MAXRSS_KB %M"] + cmd,
            cwd=cwd, stdout=log, stderr=subprocess.STDOUT, env=env or sh_env(),
            preexec_fn=limit_mem(mem_gb),
        )
        try:
            rc = p.wait(timeout=timeout)
            timed_out = False
        except subprocess.TimeoutExpired:
            timed_out = True
            try:
                os.killpg(p.pid, 9)
            except ProcessLookupError:
                pass
            p.wait()
            rc = -9
    return rc, timed_out, time.time() - t0


CHECK_RE = re.compile(
    r"^Check (\d+): (.+)\n\t - Status: (\w+)\n\t - Description: \"(.*)\"\n(?:\t - Location: (.*)\n)?",
    re.M,
)


def parse_kani_log(text):
    res = {
        "checks": [], "verification": None, "verif_time": None, "maxrss_kb": None,
        "status_error": "Status: ERROR" in text or "CBMC failed" in text or "out of memory" in text.lower(),
    }
    for m in CHECK_RE.finditer(text):
        res["checks"].append({
            "n": int(m.group(1)), "name": m.group(2), "status": m.group(3),
            "desc": m.group(4), "loc": m.group(5) or "",
        })
    m = re.search(r"^VERIFICATION:- (\w+)", text, re.M)
    if m:
        res["verification"] = m.group(1)
    m = re.search(r"^Verification Time: ([0-9.]+)s", text, re.M)
    if m:
        res["verif_time"] = float(m.group(1))
    m = re.search(r"MAXRSS_KB (\d+)", text)
    if m:
        res["maxrss_kb"] = int(m.group(1))
    m = re.search(r"(\d+) variables, (\d+) clauses", text)
    if m:
        res["sat_vars"], res["sat_clauses"] = int(m.group(1)), int(m.group(2))
    res["stubs"] = sorted(set(re.findall(r"^\s*- Stub: (.*)$", text, re.M)))
    return res


def is_cover(c):
    return ".cover." in c["name"] or c["status"] in ("SATISFIED", "UNSATISFIABLE")


def loc_class(loc, crate_dir):
    """where does a failed check live: 'repo', 'harness', 'model', 'other'"""
    if not loc:
        return "other"
    path = loc.split(":")[0]
    apath = os.path.normpath(os.path.join(crate_dir, path)) if not path.startswith("/") else path
    if "/.rustup/" in apath or "/.cargo/registry/" in apath or "/rustlib/" in apath:
        return "other"
    if apath.startswith(os.path.realpath(REPO) + "/") or apath.startswith(REPO + "/"):
        return "repo"
    if "/models/" in apath:
        return "model"
    if "/gen/" in apath or "/rehost/" in apath or "/sliced" in apath:
        return "repo"  # re-hosted / sliced copies of /repo files
    if apath.startswith(WORK) or apath.startswith(VERIF):
        return "harness"
    return "other"


class Result:
    pass


def crate_workdir(crate):
    return os.path.join(WORK, "crates", crate)


def target_dir(crate, slot):
    fam = gen.target_family(crate)
    return os.path.join(WORK, "tgt", fam, f"s{slot}")


def kani_cmd(h, slot, extra=()):
    cmd = ["cargo", "kani", "--harness", h.name, "--exact", "--target-dir", target_dir(h.crate, slot),
           "-Z", "stubbing"]
    cmd += list(gen.crate_kani_flags(h.crate))
    cmd += list(extra)
    return cmd


def find_harness_path(h):
    """fully qualified harness name for --exact: derived from the file path"""
    rel = h.file[len("src/"):] if h.file.startswith("src/") else h.file
    mod = rel[:-3].replace("/", "::")
    if mod in ("lib", "main"):
        return h.name
    if mod.endswith("::mod"):
        mod = mod[:-5]
    return f"{mod}::{h.name}"


def run_harness(h, slot, logs_dir):
    r = Result()
    r.h = h
    log_path = os.path.join(logs_dir, f"{h.crate}.{h.name}.log")
    cmd = ["cargo", "kani", "--harness", find_harness_path(h), "--exact",
           "--target-dir", target_dir(h.crate, slot), "-Z", "stubbing"]
    cmd += list(gen.crate_kani_flags(h.crate))
    import fcntl
    os.makedirs(os.path.dirname(target_dir(h.crate, slot)), exist_ok=True)
    with open(target_dir(h.crate, slot) + ".lock", "w") as lk:
        fcntl.flock(lk, fcntl.LOCK_EX)  # two property checks running at once share the slot target dirs
        if h.unwindset:
            extra, note = resolve_unwindset(h, slot, cmd, log_path)
            r.unwindset_note = note
            if extra is None:
                r.log_path, r.rc, r.timed_out, r.wall = log_path, 1, False, 0.0
                r.parsed = parse_kani_log("")
                r.cmd = " ".join(cmd)
                r.n_checks = r.n_failed = r.covers_total = r.covers_sat = 0
                r.cover_descs, r.failed = [], []
                r.verdict, r.reason = "inconclusive", "could not resolve per-loop unwinding bounds: " + note
                return r
            cmd = cmd + extra
        rc, timed_out, wall = run_cmd(cmd, crate_workdir(h.crate), h.timeout, h.mem_gb, log_path)
    text = open(log_path, errors="replace").read()
    r.log_path = log_path
    r.rc, r.timed_out, r.wall = rc, timed_out, wall
    r.parsed = parse_kani_log(text)
    r.cmd = " ".join(cmd)
    classify(r, text)
    return r


def resolve_unwindset(h, slot, base_cmd, log_path):
    """per-loop unwinding bounds: compile the harness, list its loops (goto-instrument --show-loops) and turn
    `substr:N` entries into `--cbmc-args --unwindset <loop id>:N,...`; every substr must match at least one loop"""
    import glob
    rc, timed_out, _ = run_cmd(base_cmd + ["--only-codegen"], crate_workdir(h.crate), 1800, 16, log_path + ".codegen")
    if rc != 0:
        return None, "codegen failed"
    pat = os.path.join(target_dir(h.crate, slot), "kani", "*", "debug", "build", "*", "*", "out", f"*{h.name}.out")
    files = [f for f in glob.glob(pat) if not f.endswith(".symtab.out")]
    if not files:
        return None, "goto binary not found"
    gb = max(files, key=os.path.getmtime)
    out = subprocess.run(["goto-instrument", "--show-loops", gb], capture_output=True, text=True).stdout
    loops = re.findall(r"^Loop (\S+):\n\s+(.*)$", out, re.M)
    pairs = []
    for ent in h.unwindset.split():
        sub, n = ent.rsplit(":", 1)
        ids = [lid for lid, desc in loops if sub in lid or sub in desc]
        if not ids:
            return None, f"no loop matches '{sub}'"
        pairs += [f"{lid}:{n}" for lid in ids]
    return ["-Z", "unstable-options", "--cbmc-args", "--unwindset", ",".join(pairs)], f"{len(pairs)} loops bounded individually"


def classify(r, text):
    h, p = r.h, r.parsed
    crate_dir = crate_workdir(h.crate)
    checks = p["checks"]
    covers = [c for c in checks if is_cover(c)]
    asserts = [c for c in checks if not is_cover(c)]
    failed = [c for c in asserts if c["status"] == "FAILURE"]
    undetermined = [c for c in asserts if c["status"] in ("UNDETERMINED",)]
    r.n_checks = len(asserts)
    r.n_failed = len(failed)
    r.covers_total = len(covers)
    r.covers_sat = sum(1 for c in covers if c["status"] == "SATISFIED")
    r.cover_descs = [c["desc"] for c in covers if c["status"] == "SATISFIED"]
    r.failed = failed
    r.reason = ""
    if r.timed_out:
        r.verdict, r.reason = "inconclusive", f"timeout after {h.timeout}s"
        return
    if p["verification"] is None:
        r.verdict = "inconclusive"
        tail = text[-600:].replace("\n", " | ")
        r.reason = f"no verdict from kani (rc={r.rc}; out of memory / build error?): {tail}"
        return
    unwind_fail = [c for c in failed if "unwinding assertion" in c["desc"]]
    if unwind_fail:
        r.verdict, r.reason = "inconclusive", "unwinding assertion failed (bound too small): " + unwind_fail[0]["loc"]
        return
    if p["verification"] == "SUCCESSFUL":
        if h.expect == "fail":
            r.verdict, r.reason = "inconclusive", "twin harness (must fail) passed: pipeline or harness is vacuous"
            return
        unsat = [c for c in covers if c["status"] != "SATISFIED"]
        if covers and h.allow_unsat_covers and len(unsat) == len(covers):
            r.verdict, r.reason = "inconclusive", "vacuity: none of the cover witnesses is satisfiable"
            return
        if unsat and not h.allow_unsat_covers:
            r.verdict = "inconclusive"
            r.reason = "vacuity: cover not satisfied: " + "; ".join(c["desc"] for c in unsat[:3])
            return
        if not covers and h.expect == "pass":
            r.verdict, r.reason = "inconclusive", "harness has no cover witness"
            return
        r.verdict = "pass"
        return
    # FAILED
    if not failed:
        r.verdict = "inconclusive"
        r.reason = "kani reported FAILED without a failed check (undetermined / error): " + \
                   ", ".join(sorted(set(c["status"] for c in asserts)))
        return
    if h.expect == "fail":
        own = [c for c in failed if loc_class(c["loc"], crate_dir) == "harness"]
        if own:
            r.verdict = "pass"
        else:
            r.verdict, r.reason = "inconclusive", "twin failed, but not at its own assertion"
        return
    cand, foreign, model = [], [], []
    for c in failed:
        k = loc_class(c["loc"], crate_dir)
        if k in ("repo", "harness"):
            cand.append(c)
        elif k == "model":
            model.append(c)
        else:
            foreign.append(c)
    if cand or foreign:
        # a failed check located in std / a dependency (e.g. `capacity overflow` in alloc::raw_vec reached from a decoder)
        # is a candidate as well: the native replay decides whether the real code panics there
        r.verdict = "candidate"
        r.cand = cand + foreign
        return
    r.verdict, r.reason = "inconclusive", "failed check inside an environment model: " + model[0]["desc"] + " @ " + model[0]["loc"]


# ------------------------------------------------------------------------------------------------
# replay
# ------------------------------------------------------------------------------------------------

PLAYBACK_RE = re.compile(r"Concrete playback unit test for `([^`]+)`:\n```\n(.*?)\n```", re.S)


def make_replay(r, pid, slot, logs_dir):
    """Re-run the failing harness with concrete playback, store the unit test, replay it natively.
    returns (reproduced: bool|None, replay_path, detail)"""
    h = r.h
    log_path = os.path.join(logs_dir, f"{h.crate}.{h.name}.playback.log")
    cmd = ["cargo", "kani", "--harness", find_harness_path(h), "--exact",
           "--target-dir", target_dir(h.crate, slot), "-Z", "stubbing",
           "-Z", "concrete-playback", "--concrete-playback=print"]
    cmd += list(gen.crate_kani_flags(h.crate))
    if h.unwindset:
        base = ["cargo", "kani", "--harness", find_harness_path(h), "--exact",
                "--target-dir", target_dir(h.crate, slot), "-Z", "stubbing"] + list(gen.crate_kani_flags(h.crate))
        extra, _ = resolve_unwindset(h, slot, base, log_path)
        if extra:
            cmd += extra
    rc, timed_out, wall = run_cmd(cmd, crate_workdir(h.crate), h.timeout * 2, h.mem_gb, log_path)
    text = open(log_path, errors="replace").read()
    tests = PLAYBACK_RE.findall(text)
    if not tests:
        return None, None, "kani produced no concrete playback test"
    rdir = os.path.join(VERIF, "replays", pid)
    os.makedirs(rdir, exist_ok=True)
    rpath = os.path.join(rdir, f"{h.crate}.{h.name}.rs")
    body = "\n\n".join(t[1] for t in tests if "Check for `cover`" not in t[1])
    if not body.strip():
        return None, None, "kani produced no concrete playback test for the failed check"
    names = re.findall(r"fn (kani_concrete_playback_\w+)", body)
    header = (f"// replay for property {pid}\n// crate={h.crate}\n// file={h.file}\n// harness={h.name}\n"
              f"// failed: " + " ;; ".join(c['desc'] + ' @ ' + c['loc'] for c in getattr(r, 'cand', [])[:4]).replace("\n", " ") + "\n"
              f"// run: bin/check {pid} --replay {os.path.relpath(rpath, VERIF)}\n")
    with open(rpath, "w") as f:
        f.write(header + body + "\n")
    ok, detail = run_replay_file(rpath, logs_dir)
    return ok, rpath, detail


def run_replay_file(rpath, logs_dir):
    text = open(rpath).read()
    meta = dict(re.findall(r"^// (\w+)=(.*)$", text, re.M))
    crate, file, harness = meta["crate"], meta["file"], meta["harness"]
    tests = re.findall(r"fn (kani_concrete_playback_\w+)", text)
    body = text[text.index("///"):] if "///" in text else text
    gen.prepare_crate(crate, VERIF, WORK, REPO)
    scratch = os.path.join(WORK, "replay", f"{crate}.{harness}")
    shutil.rmtree(scratch, ignore_errors=True)
    shutil.copytree(crate_workdir(crate), scratch, symlinks=True)
    src = os.path.join(scratch, file)
    with open(src, "a") as f:
        f.write("\n#[cfg(kani)]\nmod verif_replay {\n    use super::*;\n" + body + "\n}\n")
    results = {}
    for profile in ("dev", "release"):
        log_path = os.path.join(logs_dir, f"{crate}.{harness}.replay.{profile}.log")
        cmd = ["cargo", "kani", "playback", "-Z", "concrete-playback", "-Z", "stubbing"]
        cmd += list(gen.crate_kani_flags(crate))
        if profile == "release":
            cmd += ["--release"] if gen.playback_supports_release() else []
            if not gen.playback_supports_release():
                continue
        cmd += ["--", "verif_replay"]
        env = sh_env()
        env["CARGO_TARGET_DIR"] = os.path.join(WORK, "tgt", "replay-" + gen.target_family(crate))
        rc, timed_out, wall = run_cmd(cmd, scratch, 1200, 24, log_path, env=env)
        out = open(log_path, errors="replace").read()
        m = re.search(r"test result: (\w+)\. (\d+) passed; (\d+) failed", out)
        if m:
            results[profile] = "reproduced" if int(m.group(3)) > 0 else "not-reproduced"
        else:
            results[profile] = "error"
    shutil.rmtree(scratch, ignore_errors=True)
    if any(v == "reproduced" for v in results.values()):
        return True, json.dumps(results)
    if all(v == "not-reproduced" for v in results.values()) and results:
        return False, json.dumps(results)
    return None, json.dumps(results)


# ------------------------------------------------------------------------------------------------
# known findings
# ------------------------------------------------------------------------------------------------

def load_known():
    p = os.path.join(VERIF, "known_findings.json")
    if not os.path.exists(p):
        return {"findings": [], "fixed": []}
    return json.load(open(p))


def match_known(known, pid, r):
    """a candidate is covered by a known finding iff every failed check matches one listed entry
    of this property for this harness"""
    entries = [k for k in known.get("findings", []) if k["property"] == pid and re.fullmatch(k["harness"], r.h.name)]
    if not entries:
        return None
    hit = None
    for c in r.cand:
        e = next((k for k in entries if re.search(k["match"], c["desc"] + " @ " + c["loc"])), None)
        if e is None:
            return None
        hit = hit or e
    return hit


# ------------------------------------------------------------------------------------------------
# main
# ------------------------------------------------------------------------------------------------

def file_hashes(fn_text):
    out = {}
    for m in re.finditer(r"([\w\-/\.]+\.rs)", fn_text):
        p = os.path.join(REPO, m.group(1))
        if os.path.exists(p):
            out[m.group(1)] = hashlib.sha256(open(p, "rb").read()).hexdigest()[:16]
    return out


def main():
    ap = argparse.ArgumentParser()
    ap.add_argument("prop")
    ap.add_argument("--tier", default=os.environ.get("VERIF_TIER", "quick"), choices=["quick", "thorough"])
    ap.add_argument("--jobs", type=int, default=int(os.environ.get("VERIF_JOBS", "8")))
    ap.add_argument("--only", default=None)
    ap.add_argument("--replay", default=None)
    ap.add_argument("--list", action="store_true")
    ap.add_argument("--no-evidence", action="store_true")
    ap.add_argument("--thorough-only", action="store_true",
                    help="run only the harnesses that the thorough tier adds; evidence goes to evidence/thorough/<id>.json")
    args = ap.parse_args()
    pid = args.prop
    seed = int(os.environ.get("VERIF_SEED", "0"))
    t_start = time.time()

    logs_dir = os.path.join(WORK, "logs", pid)
    os.makedirs(logs_dir, exist_ok=True)

    if args.replay:
        rp = args.replay if os.path.isabs(args.replay) else os.path.join(VERIF, args.replay)
        if rp.endswith(".smt2") or rp.endswith(".json"):
            import e3
            ok, detail = e3.replay(rp)
        else:
            ok, detail = run_replay_file(rp, logs_dir)
        print(f"replay {rp}: {'REPRODUCED' if ok else 'not reproduced' if ok is False else 'error'} {detail}")
        if ok:
            print(f"VIOLATION property={pid} replay={rp}")
            sys.exit(1)
        sys.exit(0 if ok is False else 2)

    reg = load_registry()
    hs = [h for h in reg if pid in h.props and (h.tier == "quick" or args.tier == "thorough")]
    if args.thorough_only:
        args.tier = "thorough"
        hs = [h for h in reg if pid in h.props and h.tier == "thorough"]
    if args.only:
        hs = [h for h in hs if re.search(args.only, h.name)]
    if args.list:
        for h in hs:
            print(h.crate, h.name, h.tier, h.timeout, h.kind)
        return
    if not hs:
        print(f"no harness registered for {pid}")
        sys.exit(2)

    # permute order by seed (verdicts do not depend on it); long jobs first
    hs.sort(key=lambda h: (-h.timeout, hashlib.sha256(f"{seed}{h.name}".encode()).hexdigest()))

    # (1) regenerate the harness / mirror crates from /repo's current tree
    gen_notes = {}
    for crate in sorted(set(h.crate for h in hs if h.kind == "kani")):
        try:
            gen_notes[crate] = gen.prepare_crate(crate, VERIF, WORK, REPO)
        except gen.GenError as e:
            print(f"INCONCLUSIVE property={pid} generator failed for crate {crate}: {e}")
            write_evidence(pid, args, seed, [], t_start, gen_notes, inconclusive=[f"generator: {e}"])
            sys.exit(2)

    # (2) run
    results = []
    lock = threading.Lock()
    q = queue.Queue()
    for h in hs:
        q.put(h)
    njobs = max(1, min(args.jobs, len(hs)))

    def worker(slot):
        while True:
            try:
                h = q.get_nowait()
            except queue.Empty:
                return
            if h.kind == "smt":
                import e3
                r = e3.run(h, logs_dir, REPO, WORK)
            else:
                r = run_harness(h, slot, logs_dir)
            r.slot = slot
            with lock:
                results.append(r)
                print(f"[{time.time()-t_start:6.0f}s] {h.crate}::{h.name}: {r.verdict}"
                      f" ({getattr(r,'n_checks',0)} checks, {getattr(r,'covers_sat',0)}/{getattr(r,'covers_total',0)} covers,"
                      f" {r.wall:.0f}s) {r.reason}", flush=True)

    threads = [threading.Thread(target=worker, args=(i,)) for i in range(njobs)]
    for t in threads:
        t.start()
    for t in threads:
        t.join()

    # (3) candidates -> replay -> violation / known finding / inconclusive
    known = load_known()
    violations, known_hits, inconclusive = [], [], []
    for r in results:
        if r.verdict == "inconclusive":
            inconclusive.append(f"{r.h.name}: {r.reason}")
    cands = [r for r in results if r.verdict == "candidate"]

    def do_replay(r):
        if r.h.kind == "smt":
            import e3
            ok, rpath, detail = e3.make_replay(r, pid, logs_dir)
        else:
            ok, rpath, detail = make_replay(r, pid, r.slot, logs_dir)
        r.replay = {"reproduced": ok, "path": rpath, "detail": detail}
        print(f"[{time.time()-t_start:6.0f}s] replay {r.h.name}: {'reproduced' if ok else 'NOT reproduced' if ok is False else 'error'} {detail}", flush=True)

    rthreads = []
    sem = threading.Semaphore(max(1, args.jobs))

    def guarded(r):
        with sem:
            do_replay(r)

    for r in cands:
        t = threading.Thread(target=guarded, args=(r,))
        t.start()
        rthreads.append(t)
    for t in rthreads:
        t.join()
    for r in cands:
        ok, detail = r.replay["reproduced"], r.replay["detail"]
        if ok is True:
            e = match_known(known, pid, r)
            if e is not None:
                known_hits.append((r, e))
                r.verdict = "known-finding"
            else:
                violations.append(r)
                r.verdict = "violation"
        else:
            r.verdict = "inconclusive"
            r.reason = f"counterexample did not reproduce natively ({detail}); encoding or stub suspect"
            inconclusive.append(f"{r.h.name}: {r.reason}")

    for r, e in known_hits:
        print(f"KNOWN-FINDING: property={pid} {e['what']} [harness {r.h.name}]")
    for r in violations:
        descs = "; ".join(c["desc"] + " @ " + c["loc"] for c in r.cand[:3])
        print(f"violation detail: {r.h.name}: {descs}")
        print(f"VIOLATION property={pid} replay={r.replay['path']}")

    if not args.no_evidence:
        write_evidence(pid, args, seed, results, t_start, gen_notes, inconclusive)

    if violations:
        sys.exit(1)
    if inconclusive:
        for i in inconclusive:
            print(f"INCONCLUSIVE property={pid} {i}")
        sys.exit(2)
    held = "all within bounds hold" if not known_hits else (
        f"{len(known_hits)} refuted as listed known finding(s) above, all others within bounds hold")
    print(f"OK property={pid} tier={args.tier}: {len(results)} solver queries, {held} "
          f"({sum(getattr(r,'n_checks',0) for r in results)} checks discharged) in {time.time()-t_start:.0f}s")
    sys.exit(0)


def write_evidence(pid, args, seed, results, t_start, gen_notes, inconclusive):
    samples, fns, bounds, assumes, outside, models = [], {}, [], set(), set(), set()
    checks_total = covers = 0
    solver_time = 0.0
    peak = 0
    nontrivial = 0
    for r in sorted(results, key=lambda r: r.h.name):
        h = r.h
        checks_total += getattr(r, "n_checks", 0)
        covers += getattr(r, "covers_sat", 0)
        solver_time += (r.parsed.get("verif_time") or 0.0) if hasattr(r, "parsed") else getattr(r, "solver_s", 0.0)
        peak = max(peak, (r.parsed.get("maxrss_kb") or 0) if hasattr(r, "parsed") else 0)
        if r.verdict in ("pass", "known-finding", "violation") and (getattr(r, "covers_sat", 0) > 0 or h.expect == "fail"):
            nontrivial += 1
        for f, hsh in file_hashes(h.fns).items():
            fns[f] = hsh
        if h.assumes:
            assumes.add(f"{h.name}: {h.assumes}")
        if h.outside:
            outside.add(h.outside)
        for s in (r.parsed.get("stubs", []) if hasattr(r, "parsed") else []):
            assumes.add(f"{h.name}: kani stub {s}")
        samples.append({
            "harness": f"{h.crate}::{h.name}", "engine": h.kind, "sub_claim": h.sub,
            "functions": h.fns, "bound": h.bound, "oracle": h.oracle,
            "verdict": r.verdict, "reason": r.reason,
            "checks_discharged": getattr(r, "n_checks", 0), "checks_failed": getattr(r, "n_failed", 0),
            "covers_satisfied": getattr(r, "cover_descs", [])[:12],
            "sat_vars": r.parsed.get("sat_vars") if hasattr(r, "parsed") else None,
            "sat_clauses": r.parsed.get("sat_clauses") if hasattr(r, "parsed") else None,
            "solver_s": (r.parsed.get("verif_time") if hasattr(r, "parsed") else getattr(r, "solver_s", None)),
            "wall_s": round(r.wall, 1),
            "expect": h.expect,
            "replay": getattr(r, "replay", None),
            "extra": getattr(r, "extra", None),
        })
    nviol = sum(1 for r in results if r.verdict == "violation")
    for crate, note in gen_notes.items():
        for m in (note or {}).get("models", []):
            models.add(m)
    ev = {
        "property_id": pid,
        "tier": args.tier,
        "seed": seed,
        "level": "model_checking",
        "coverage": {
            "evaluations": max(1, len(results)),
            "distinct_nontrivial": nontrivial,
            "rule": "one evaluation = one solver query (a Kani/CBMC harness over the compiled real code, or an SMT query "
                    "generated from the nightly MIR dump) deciding its assertion for every input within the stated bound; "
                    "a query counts as distinct and non-trivial when it is a different harness AND its kani::cover! reachability "
                    "witnesses were all SATISFIED (or, for a twin, it FAILED as required), i.e. it is provably non-vacuous",
            "samples": samples,
            "exhaustive": False,
            "explanation": "bounded symbolic model checking of the real code; within each bound the verdict covers every value "
                           "(no sampling); outside the bounds nothing is claimed",
            "functions_encoded_files_sha256_16": fns,
            "harnesses": len(results),
            "checks_discharged": checks_total,
            "covers_satisfied": covers,
            "solver_time_s": round(solver_time, 1),
            "peak_rss_mb": peak // 1024,
            "models_and_generators": {k: v for k, v in gen_notes.items()},
            "outside_claim": sorted(outside),
            "inconclusive": inconclusive,
            "known_findings_reported": [r.h.name for r in results if r.verdict == "known-finding"],
            "trusted_base": ["rustc + Kani 0.68 MIR->goto translation", "CBMC 6.11 + CaDiCaL", "cvc5 1.0 / z3 4.8.12 (E3)",
                             "environment models listed in models_and_generators"] + sorted(models),
        },
        "assumptions": sorted(assumes),
        "wall_s": round(time.time() - t_start, 1),
        "violations": nviol,
    }
    edir = os.path.join(VERIF, "evidence", "thorough") if getattr(args, "thorough_only", False) else os.path.join(VERIF, "evidence")
    os.makedirs(edir, exist_ok=True)
    with open(os.path.join(edir, f"{pid}.json"), "w") as f:
        json.dump(ev, f, indent=1)


if __name__ == "__main__":
    main()
