#!/usr/bin/env python3
"""writes /verif/seeded/<id>/meta.json from the agent's report, my confirmation logs and the detection logs"""
import glob
import json
import os
import re
import sys

root = "/verif/seeded"
for d in sorted(os.listdir(root)):
    p = os.path.join(root, d)
    if not os.path.isdir(p) or not os.path.exists(os.path.join(p, "patch.diff")):
        continue
    agent = {}
    if os.path.exists(os.path.join(p, "meta_agent.json")):
        try:
            agent = json.load(open(os.path.join(p, "meta_agent.json")))
        except Exception:
            agent = {}

    def res(f):
        fp = os.path.join(p, f)
        if not os.path.exists(fp):
            return None
        return " | ".join(re.findall(r"test result: [^\n]*", open(fp).read()))

    detections = {}
    for f in sorted(glob.glob(os.path.join(p, "detect_*.log"))):
        prop = os.path.basename(f)[7:-4]
        t = open(f).read()
        detections[prop] = {
            "exit": (re.findall(r"exit=(\d+)", t) or ["?"])[-1],
            "violations": re.findall(r"violation detail: ([^\n]*)", t)[:6],
            "inconclusive": re.findall(r"INCONCLUSIVE [^\n]*", t)[:4],
            "cmd": f"tools/seed_run.sh {d} {prop}",
        }
    meta = {
        "seed": d,
        "breaks_property": agent.get("property", d[:3]),
        "summary": agent.get("summary"),
        "needs_to_manifest": agent.get("needs"),
        "files_changed": agent.get("files"),
        "origin": "written by an independent sub-agent that saw only the property text and its own scratch worktree of /repo",
        "confirmed_by_me": {
            "how": f"tools/seed_verify.sh {d[:3]} in the scratch worktree /tmp/seed-{d[:3]} (removed afterwards)",
            "existing_suite_with_change": res("suite_with_change.log"),
            "demo_with_change": res("demo_with_change.log"),
            "demo_without_change": res("demo_without_change.log"),
        },
        "detection": detections,
    }
    json.dump(meta, open(os.path.join(p, "meta.json"), "w"), indent=1)
    print(d, {k: v["exit"] for k, v in detections.items()})
