#!/bin/bash
# usage: seed_run.sh <seed dir name under /verif/seeded> <Cxx> [--only REGEX]
# applies the seeded change to /repo, runs the property's check (no evidence rewrite), undoes the change
set -u
seed=$1; prop=$2; shift 2
dir=/verif/seeded/$seed
cd /repo || exit 2
if [ -n "$(git status --porcelain)" ]; then echo "/repo not clean"; exit 2; fi
git apply $dir/patch.diff || { echo "patch does not apply to /repo"; exit 2; }
cd /verif
bin/check $prop --no-evidence "$@" > $dir/detect_$prop.log 2>&1
rc=$?
git -C /repo checkout -- .
echo "exit=$rc" >> $dir/detect_$prop.log
grep -E "VIOLATION|INCONCLUSIVE|^OK|KNOWN" $dir/detect_$prop.log | cut -c1-220
echo "seed=$seed prop=$prop exit=$rc"
