#!/usr/bin/env python3
"""Prints the markdown harness inventory (per property) for DESIGN.md §11 from the registry annotations."""
import os
import sys

VERIF = os.path.dirname(os.path.dirname(os.path.abspath(__file__)))
sys.path.insert(0, os.path.join(VERIF, "tools"))
import runner  # noqa: E402


def main():
    reg = runner.load_registry()
    props = sorted(set(p for h in reg for p in h.props))
    for pid in props:
        hs = [h for h in reg if pid in h.props]
        print(f"\n#### {pid} — {sum(1 for h in hs if h.tier == 'quick')} quick / {len(hs)} thorough queries\n")
        print("| harness | engine | tier | real code | bound | oracle |")
        print("|---|---|---|---|---|---|")
        for h in sorted(hs, key=lambda h: (h.crate, h.name)):
            if h.expect == "fail":
                continue
            eng = {"proto": "E1", "wt": "E1", "mproto": "E2", "mdrv": "E2", "mx509": "E2", "mquic": "E2", "e3": "E3"}.get(h.crate, h.crate)
            primary = "" if h.props[0] == pid else f" (primary {h.props[0]})"
            print(f"| `{h.name}`{primary} | {eng}/{h.crate} | {h.tier} | {h.fns[:160]} | {h.bound[:260]} | {h.oracle[:300]} |")
        twins = [h.name for h in hs if h.expect == "fail"]
        if twins:
            print(f"\nTwins (must be refuted): {', '.join('`'+t+'`' for t in twins)}")


if __name__ == "__main__":
    main()
