#!/usr/bin/env python3
"""
E3 — nightly MIR -> SMT-LIB2 for loop-free integer kernels of wtransport-proto.

The MIR of the *current* /repo/wtransport-proto is dumped with `cargo +nightly rustc -- -Zunpretty=mir
-C overflow-checks=on`, the functions named below are translated (ints / bools / 1-field newtypes; copy/move/const;
BinOp/UnOp/casts; *WithOverflow + assert; switchInt/goto/return; calls to other dumped functions, inlined) and the
negated property is sent to cvc5 (`--solve-bv-as-int=sum`, which decides the mod-31 GREASE arithmetic at 62 bits
where bit-blasting stalls) and to z3. `unsat` = holds for every 64-bit input satisfying the stated precondition;
`sat` = a concrete input, which is replayed against the real function through a small native driver
(kani/e3native) before it is reported. An `(error` line, an unknown, or solver disagreement is inconclusive.

The translator is validated on every run: ground instances (the repository's own unit-test vectors and boundary
values) are evaluated both by the solver over the encoding and by the native function; any difference makes every
E3 query of the run inconclusive.
"""
import json
import os
import re
import shutil
import subprocess
import time

VERIF = os.path.dirname(os.path.dirname(os.path.abspath(__file__)))

BITS = {'u8': 8, 'u16': 16, 'u32': 32, 'u64': 64, 'usize': 64, 'i8': 8, 'i16': 16, 'i32': 32, 'i64': 64, 'isize': 64}


def bv(val, bits):
    return '(_ bv%d %d)' % (val % (1 << bits), bits)


class Unsupported(Exception):
    pass


class Fn:
    def __init__(self, name, args, ret, locals_, blocks):
        self.name, self.args, self.ret, self.locals, self.blocks = name, args, ret, locals_, blocks


def parse_mir(path):
    fns = {}
    txt = open(path).read()
    for m in re.finditer(r'^fn (.+?)\((.*?)\) -> (.+?) \{\n(.*?)^\}', txt, re.S | re.M):
        name, args, ret, body = m.group(1), m.group(2), m.group(3), m.group(4)
        if name in fns:  # the second copy is "MIR FOR CTFE"
            continue
        a = [(x.split(':')[0].strip(), x.split(':', 1)[1].strip()) for x in re.split(r',\s*(?=_\d+:)', args) if x.strip()]
        locs = dict(a)
        for lm in re.finditer(r'let (?:mut )?(_\d+): (.+?);', body):
            locs[lm.group(1)] = lm.group(2)
        blocks = {}
        for bm in re.finditer(r'^    (bb\d+)(?: \(cleanup\))?: \{\n(.*?)^    \}', body, re.S | re.M):
            blocks[bm.group(1)] = [l.strip() for l in bm.group(2).strip().split('\n') if l.strip()]
        fns[name] = Fn(name, a, ret, locs, blocks)
    return fns


class Tr:
    """symbolic executor over the acyclic CFG: returns [(path_cond, value)], [panic path_cond]"""

    def __init__(self, fns, wrap=False, depth=0):
        self.fns, self.wrap, self.depth = fns, wrap, depth

    def width_of(self, fn, local):
        ty = fn.locals.get(local, '').strip()
        if ty in BITS:
            return BITS[ty]
        if ty == 'bool':
            return 0
        return 64

    def operand(self, env, s, fn):
        s = s.strip()
        m = re.match(r'const (-?\d+)_(\w+)$', s)
        if m:
            return bv(int(m.group(1)), BITS[m.group(2)])
        if s in ('const true', 'const false'):
            return s.split()[1]
        s = re.sub(r'^(copy|move) ', '', s)
        m = re.match(r'\((.+)\.(\d+): .+\)$', s)
        if m:
            base = self.operand(env, m.group(1), fn)
            return base[int(m.group(2))] if isinstance(base, tuple) else base  # 1-field newtype = its field
        if re.match(r'_\d+$', s):
            if s not in env:
                raise Unsupported('uninitialised local ' + s)
            return env[s]
        raise Unsupported('operand ' + s)

    def find(self, callee):
        callee = callee.strip()
        last = callee.split('::')[-1]
        mod = callee.split('::')[0]
        cands = [n for n in self.fns if n.endswith('>::' + last) and n.startswith(mod + '::')]
        if len(cands) == 1:
            return self.fns[cands[0]]
        raise Unsupported('callee %s -> %s' % (callee, cands))

    def run(self, fn, argvals):
        if self.depth > 6:
            raise Unsupported('call depth')
        env = {a[0]: v for a, v in zip(fn.args, argvals)}
        self.results, self.panics = [], []
        self._go(fn, 'bb0', env, [], 0)
        return self.results, self.panics

    def _go(self, fn, bb, env, pc, steps):
        if steps > 200:
            raise Unsupported('loop or very long path in ' + fn.name)
        env = dict(env)
        for line in fn.blocks[bb]:
            line = line.rstrip(';')
            if line.startswith(('StorageLive', 'StorageDead', 'nop', 'debug', 'FakeRead', 'PlaceMention', 'Retag', 'Coverage', 'ConstEvalCounter')):
                continue
            m = re.match(r'switchInt\((.+)\) -> \[(.+)\]$', line)
            if m:
                d = self.operand(env, m.group(1), fn)
                arms = [a.strip() for a in m.group(2).split(',')]
                taken = []
                for a in arms:
                    k, t = [x.strip() for x in a.split(':')]
                    if k == 'otherwise':
                        cond = '(not (or false %s))' % ' '.join(taken)
                    else:
                        if self._isbool(d):
                            cond = ('(not %s)' % d) if k == '0' else d
                        else:
                            cond = '(= %s %s)' % (d, bv(int(k), self._w(d)))
                        taken.append(cond)
                    self._go(fn, t, env, pc + [cond], steps + 1)
                return
            m = re.match(r'goto -> (bb\d+)$', line)
            if m:
                return self._go(fn, m.group(1), env, pc, steps + 1)
            if line == 'return':
                self.results.append((pc, env.get('_0')))
                return
            m = re.match(r'assert\((!?)(.+?), ".*\) -> \[success: (bb\d+), unwind.*\]$', line)
            if m:
                c = self.operand(env, m.group(2), fn)
                ok = ('(not %s)' % c) if m.group(1) else c
                if not self.wrap:
                    self.panics.append(pc + ['(not %s)' % ok])
                    return self._go(fn, m.group(3), env, pc + [ok], steps + 1)
                return self._go(fn, m.group(3), env, pc, steps + 1)
            if re.match(r'(_\d+ = )?(core::panicking::)?panic', line) or line.startswith('unreachable'):
                self.panics.append(pc)
                return
            m = re.match(r'(_\d+) = (.+?)\((.*)\) -> \[return: (bb\d+), unwind.*\]$', line)
            if m and '::' in m.group(2):
                callee = self.find(m.group(2))
                args = [self.operand(env, a, fn) for a in re.split(r',\s*', m.group(3)) if a.strip()]
                sub = Tr(self.fns, self.wrap, self.depth + 1)
                res, pan = sub.run(callee, args)
                for p in pan:
                    self.panics.append(pc + p)
                val = None
                for p, v in reversed(res):
                    val = v if val is None else self._ite('(and true %s)' % ' '.join(p), v, val)
                env[m.group(1)] = val
                return self._go(fn, m.group(4), env, pc, steps + 1)
            m = re.match(r'(_\d+) = (.+)$', line)
            if m:
                env[m.group(1)] = self.rvalue(env, m.group(2), fn, m.group(1))
                continue
            raise Unsupported('stmt ' + line)

    def _isbool(self, t):
        if not isinstance(t, str):
            return False
        if t in ('true', 'false'):
            return True
        return t.startswith(('(not ', '(and ', '(or ', '(= ', '(bvult ', '(bvule ', '(bvugt ', '(bvuge ', '(ite (and true')) and not t.startswith('(ite') or self._ite_bool(t)

    def _ite_bool(self, t):
        m = re.match(r'\(ite .* (true|false)\)$', t)
        return bool(m)

    def _w(self, t):
        m = re.match(r'\(_ bv\d+ (\d+)\)$', t)
        if m:
            return int(m.group(1))
        m = re.search(r'\(_ bv\d+ (\d+)\)', t)
        if m:
            return int(m.group(1))
        m = re.match(r'\(\(_ (?:zero_extend|extract) ', t)
        return 64

    def _ite(self, c, a, b):
        if isinstance(a, tuple):
            return tuple(self._ite(c, x, y) for x, y in zip(a, b))
        return '(ite %s %s %s)' % (c, a, b)

    def rvalue(self, env, r, fn, dst):
        cmp_ = {'Eq': '=', 'Lt': 'bvult', 'Le': 'bvule', 'Gt': 'bvugt', 'Ge': 'bvuge'}
        ar = {'Add': 'bvadd', 'Sub': 'bvsub', 'Mul': 'bvmul', 'BitAnd': 'bvand', 'BitOr': 'bvor', 'BitXor': 'bvxor',
              'Rem': 'bvurem', 'Div': 'bvudiv', 'Shl': 'bvshl', 'Shr': 'bvlshr'}
        m = re.match(r'(\w+)\((.+), (.+)\)$', r)
        if m and m.group(1) in cmp_:
            return '(%s %s %s)' % (cmp_[m.group(1)], self.operand(env, m.group(2), fn), self.operand(env, m.group(3), fn))
        if m and m.group(1) == 'Ne':
            return '(not (= %s %s))' % (self.operand(env, m.group(2), fn), self.operand(env, m.group(3), fn))
        if m and m.group(1) in ar:
            a, b = self.operand(env, m.group(2), fn), self.operand(env, m.group(3), fn)
            if m.group(1) in ('Shl', 'Shr'):
                wa, wb = self.width_of(fn, dst), None
                mb = re.match(r'\(_ bv(\d+) (\d+)\)$', b)
                if mb and wa and int(mb.group(2)) != wa:
                    b = bv(int(mb.group(1)), wa)
            return '(%s %s %s)' % (ar[m.group(1)], a, b)
        if m and m.group(1) in ('AddWithOverflow', 'SubWithOverflow'):
            a, b = self.operand(env, m.group(2), fn), self.operand(env, m.group(3), fn)
            if m.group(1) == 'SubWithOverflow':
                return ('(bvsub %s %s)' % (a, b), '(bvult %s %s)' % (a, b))
            return ('(bvadd %s %s)' % (a, b), '(bvult (bvadd %s %s) %s)' % (a, b, a))
        m = re.match(r'Not\((.+)\)$', r)
        if m:
            v = self.operand(env, m.group(1), fn)
            return '(not %s)' % v if self._isbool(v) else '(bvnot %s)' % v
        m = re.match(r'(.+) as (\w+) \(IntToInt\)$', r)
        if m:
            v, to = self.operand(env, m.group(1), fn), BITS[m.group(2)]
            if self._isbool(v):
                return '(ite %s %s %s)' % (v, bv(1, to), bv(0, to))
            src_local = re.sub(r'^(copy|move) ', '', m.group(1).strip())
            frm = self.width_of(fn, src_local) if re.match(r'_\d+$', src_local) else self._w(v)
            if frm == to:
                return v
            if frm < to:
                return '((_ zero_extend %d) %s)' % (to - frm, v)
            return '((_ extract %d 0) %s)' % (to - 1, v)
        return self.operand(env, r, fn)


def value_and_panic(fns, fn, args, wrap=False):
    t = Tr(fns, wrap)
    res, pan = t.run(fn, args)
    if not res:
        raise Unsupported('no return path in ' + fn.name)
    v = None
    for p, x in reversed(res):
        v = x if v is None else '(ite (and true %s) %s %s)' % (' '.join(p), x, v)
    panic = '(or false %s)' % ' '.join('(and true %s)' % ' '.join(p) for p in pan)
    return v, panic


# ------------------------------------------------------------------------------------------------
# queries
# ------------------------------------------------------------------------------------------------

VMAX = (1 << 62) - 1
H = lambda v: '#x%016x' % v  # noqa: E731

GREASE_PRE = '''(assert (bvule n (bvudiv (bvsub %s %s) %s)))
(assert (bvuge r #x0000000000000001)) (assert (bvule r #x000000000000001e))
(assert (bvule small #x0000000000000020))''' % (H(VMAX), H(0x21), H(0x1f))


def q_grease(fnpat, native):
    return {
        'find': fnpat, 'native': native, 'decls': [('n', 64), ('r', 64), ('small', 64)],
        'calls': {'g': '(bvadd (bvmul #x000000000000001f n) #x0000000000000021)',
                  'ng': '(bvadd (bvadd (bvmul #x000000000000001f n) #x0000000000000021) r)',
                  'sm': 'small'},
        'pre': GREASE_PRE + '\n(assert (bvule {arg_ng} %s))' % H(VMAX),
        # property: grease ids recognised, their 30 neighbours and everything below 0x21 are not, no panic
        'neg': '(or (not {val_g}) {val_ng} {val_sm} {pan_g} {pan_ng} {pan_sm})',
        'int_blast': True,
        'py_ref': lambda x: x >= 0x21 and (x - 0x21) % 0x1f == 0,
        'model_args': ['g', 'ng', 'sm'],
        'vectors': [0, 0x20, 0x21, 0x22, 0x40, 0x41, 0x1f * 1000 + 0x21, VMAX, VMAX - 1, (VMAX - 0x21) // 0x1f * 0x1f + 0x21],
        'ret': 'bool',
    }


QUERIES = {
    'e3_grease_frame': dict(q_grease(r'^frame::.*>::is_id_exercise$', 'frame_is_id_exercise'),
                            props=['C13', 'C16'], fn='wtransport-proto/src/frame.rs FrameKind::is_id_exercise'),
    'e3_grease_stream': dict(q_grease(r'^stream_header::.*>::is_id_exercise$', 'stream_is_id_exercise'),
                             props=['C13', 'C16'], fn='wtransport-proto/src/stream_header.rs StreamKind::is_id_exercise'),
    'e3_grease_setting': dict(q_grease(r'^settings::.*>::is_exercise$', 'setting_is_exercise'),
                              props=['C13', 'C16'], fn='wtransport-proto/src/settings.rs SettingId::is_exercise'),
    'e3_setting_reserved': {
        'props': ['C13', 'C18'], 'fn': 'wtransport-proto/src/settings.rs SettingId::is_reserved',
        'find': r'^settings::.*>::is_reserved$', 'native': 'setting_is_reserved', 'decls': [('v', 64)],
        'calls': {'v': 'v'}, 'pre': '(assert (bvule v %s))' % H(VMAX),
        'neg': '(or {pan_v} (not (= {val_v} (or (= v %s) (= v %s) (= v %s) (= v %s) (= v %s)))))' % (H(0), H(2), H(3), H(4), H(5)),
        'int_blast': False, 'py_ref': lambda x: x in (0, 2, 3, 4, 5), 'model_args': ['v'],
        'vectors': [0, 1, 2, 3, 4, 5, 6, 7, 8, 0x33, VMAX], 'ret': 'bool',
    },
    'e3_varint_size': {
        'props': ['C14', 'C11'], 'fn': 'wtransport-proto/src/varint.rs VarInt::size',
        'find': r'^varint::.*>::size$', 'native': 'varint_size', 'decls': [('v', 64)],
        'calls': {'v': 'v'}, 'pre': '(assert (bvule v %s))' % H(VMAX),
        'neg': '(or {pan_v} (not (= {val_v} (ite (bvult v #x0000000000000040) (_ bv1 64) (ite (bvult v #x0000000000004000) (_ bv2 64) (ite (bvult v #x0000000040000000) (_ bv4 64) (_ bv8 64)))))))',
        'int_blast': False, 'py_ref': lambda x: 1 if x < 64 else 2 if x < 16384 else 4 if x < (1 << 30) else 8, 'model_args': ['v'],
        'vectors': [0, 63, 64, 16383, 16384, (1 << 30) - 1, 1 << 30, VMAX, 15293, 494878333, 151288809941952652], 'ret': 'int',
    },
    'e3_varint_parse_size': {
        'props': ['C14', 'C11', 'C15'], 'fn': 'wtransport-proto/src/varint.rs VarInt::parse_size',
        'find': r'^varint::.*>::parse_size$', 'native': 'varint_parse_size', 'decls': [('b', 8)],
        'calls': {'b': 'b'}, 'pre': '',
        'neg': '(or {pan_b} (not (= {val_b} (bvshl (_ bv1 64) ((_ zero_extend 56) (bvlshr b #x06))))))',
        'int_blast': False, 'py_ref': lambda x: 1 << (x >> 6), 'model_args': ['b'],
        'vectors': [0x00, 0x3f, 0x40, 0x7f, 0x80, 0xbf, 0xc0, 0xff, 0x25, 0x7b, 0x9d, 0xc2], 'ret': 'int',
    },
    'e3_streamid_bidi': {
        'props': ['C17'], 'fn': 'wtransport-proto/src/ids.rs StreamId::is_bidirectional',
        'find': r'^ids::.*>::is_bidirectional$', 'native': 'streamid_is_bidirectional', 'decls': [('v', 64)],
        'calls': {'v': 'v'}, 'pre': '(assert (bvule v %s))' % H(VMAX),
        'neg': '(or {pan_v} (not (= {val_v} (= (bvand v #x0000000000000002) #x0000000000000000))))',
        'int_blast': False, 'py_ref': lambda x: x & 2 == 0, 'model_args': ['v'],
        'vectors': [0, 1, 2, 3, 4, 5, 6, 7, VMAX, VMAX - 1, VMAX - 2, VMAX - 3], 'ret': 'bool',
    },
    'e3_streamid_client': {
        'props': ['C17'], 'fn': 'wtransport-proto/src/ids.rs StreamId::is_client_initiated',
        'find': r'^ids::.*>::is_client_initiated$', 'native': 'streamid_is_client_initiated', 'decls': [('v', 64)],
        'calls': {'v': 'v'}, 'pre': '(assert (bvule v %s))' % H(VMAX),
        'neg': '(or {pan_v} (not (= {val_v} (= (bvand v #x0000000000000001) #x0000000000000000))))',
        'int_blast': False, 'py_ref': lambda x: x & 1 == 0, 'model_args': ['v'],
        'vectors': [0, 1, 2, 3, 4, 5, 6, 7, VMAX, VMAX - 1], 'ret': 'bool',
    },
}

COMMON = {
    'e3_grease_frame': ('every n with 0x1f*n+0x21 < 2^62 (full 62-bit width), every offset r in 1..=30, every id < 0x21',
                        'id is GREASE <=> id = 0x1f*N + 0x21 (RFC 9114 §7.2.8): all such ids recognised, the 30 values between two consecutive ones and all ids below 0x21 not; no overflow panic (dev profile asserts kept)'),
    'e3_setting_reserved': ('every id < 2^62', 'reserved <=> id in {0x0, 0x2, 0x3, 0x4, 0x5} (RFC 9114 §7.2.4.1)'),
    'e3_varint_size': ('every v < 2^62', 'least k in {1,2,4,8} with v < 2^(8k-2); unreachable!() never reached'),
    'e3_varint_parse_size': ('all 256 first bytes', '1 << (b >> 6); unreachable!() never reached'),
    'e3_streamid_bidi': ('every id < 2^62', 'bit 1 clear (RFC 9000 §2.1)'),
    'e3_streamid_client': ('every id < 2^62', 'bit 0 clear (RFC 9000 §2.1)'),
}
COMMON['e3_grease_stream'] = COMMON['e3_grease_frame']
COMMON['e3_grease_setting'] = COMMON['e3_grease_frame']


class E3Harness:
    """duck-typed like runner.Harness"""

    def __init__(self, name, q):
        self.crate, self.file, self.name = 'e3', 'tools/e3.py', name
        self.props = q['props']
        self.tier = 'quick'
        self.timeout = 300
        self.mem_gb = 8
        self.expect = 'pass'
        self.kind = 'smt'
        self.fns = q['fn']
        self.bound, self.oracle = COMMON[name]
        self.outside = ''
        self.assumes = 'MIR->SMT translator (tools/e3.py), validated on ground vectors against the native function in the same run'
        self.allow_unsat_covers = False
        self.sub = 'e3'


def harnesses():
    return [E3Harness(n, q) for n, q in QUERIES.items()]


# ------------------------------------------------------------------------------------------------
# MIR dump + native driver (both rebuilt from /repo's current tree)
# ------------------------------------------------------------------------------------------------

_ctx = {}
import threading  # noqa: E402
_lock = threading.Lock()


def env_nightly():
    env = dict(os.environ)
    env['CARGO_NET_OFFLINE'] = 'true'
    env.pop('RUSTFLAGS', None)
    env.pop('RUSTUP_TOOLCHAIN', None)
    return env


def prepare(repo, work):
    """dump MIR and build the native driver once per process"""
    with _lock:
        if 'fns' in _ctx or 'error' in _ctx:
            return
        try:
            e3dir = os.path.join(work, 'e3')
            pdir = os.path.join(e3dir, 'proto')
            os.makedirs(pdir, exist_ok=True)
            subprocess.run(['rsync', '-a', '--delete', os.path.join(repo, 'wtransport-proto', 'src'), pdir + '/'], check=True)
            cargo = open(os.path.join(repo, 'wtransport-proto', 'Cargo.toml')).read()
            cargo = cargo.replace('workspace = ".."\n', '').replace('[lints]\nworkspace = true\n', '') + '\n[workspace]\n'
            open(os.path.join(pdir, 'Cargo.toml'), 'w').write(cargo)
            shutil.copy(os.path.join(repo, 'Cargo.lock'), os.path.join(pdir, 'Cargo.lock'))
            # force this crate (only) to be recompiled so that the dump is produced
            os.utime(os.path.join(pdir, 'src', 'lib.rs'))
            mir = os.path.join(e3dir, 'proto.mir')
            t0 = time.time()
            with open(mir, 'w') as out, open(os.path.join(e3dir, 'proto.err'), 'w') as err:
                r = subprocess.run(['cargo', '+nightly', 'rustc', '--offline', '--lib', '--features', 'async',
                                    '--target-dir', os.path.join(work, 'tgt', 'e3'), '--',
                                    '-Zunpretty=mir', '-C', 'debug-assertions=off', '-C', 'overflow-checks=on'],
                                   cwd=pdir, stdout=out, stderr=err, env=env_nightly(), timeout=900)
            if r.returncode != 0 or os.path.getsize(mir) < 1000:
                raise RuntimeError('MIR dump failed: ' + open(os.path.join(e3dir, 'proto.err')).read()[-400:])
            _ctx['mir_s'] = time.time() - t0
            _ctx['fns'] = parse_mir(mir)
            # native driver
            ndir = os.path.join(work, 'crates', 'e3native')
            subprocess.run(['rsync', '-a', '--delete', '--exclude', 'Cargo.lock', os.path.join(VERIF, 'kani', 'e3native') + '/', ndir + '/'], check=True)
            if not os.path.exists(os.path.join(ndir, 'Cargo.lock')):
                shutil.copy(os.path.join(repo, 'Cargo.lock'), os.path.join(ndir, 'Cargo.lock'))
            env = env_nightly()
            env['RUSTFLAGS'] = '--cfg wtransport_verif'
            r = subprocess.run(['cargo', 'build', '--offline', '--target-dir', os.path.join(work, 'tgt', 'e3native')],
                               cwd=ndir, env=env, capture_output=True, text=True, timeout=900)
            if r.returncode != 0:
                raise RuntimeError('native driver build failed: ' + r.stderr[-400:])
            _ctx['native'] = os.path.join(work, 'tgt', 'e3native', 'debug', 'e3native')
        except Exception as e:  # noqa: BLE001
            _ctx['error'] = str(e)


def native_eval(fname, vals):
    inp = '\n'.join('%s %d' % (fname, v) for v in vals) + '\n'
    r = subprocess.run([_ctx['native']], input=inp, capture_output=True, text=True, timeout=60)
    out = []
    for line in r.stdout.strip().split('\n'):
        out.append(line.strip())
    return out  # 'true' / 'false' / integer / 'panic'


def ask(smt, solver, timeout):
    try:
        r = subprocess.run(solver, input=smt, capture_output=True, text=True, timeout=timeout)
        return (r.stdout + r.stderr).strip()
    except subprocess.TimeoutExpired:
        return 'timeout'


def build_query(fns, q, get_model):
    fn = next((f for n, f in fns.items() if re.search(q['find'], n)), None)
    if fn is None:
        raise Unsupported('function not found in the MIR dump: ' + q['find'])
    subst = {}
    for key, arg in q['calls'].items():
        v, p = value_and_panic(fns, fn, [arg])
        subst['val_' + key], subst['pan_' + key], subst['arg_' + key] = v, p, arg
    smt = '(set-logic ALL)\n' + ('(set-option :produce-models true)\n' if get_model else '')
    for name, w in q['decls']:
        smt += '(declare-const %s (_ BitVec %d))\n' % (name, w)
    smt += q['pre'].format(**subst) + '\n'
    smt += '(assert %s)\n(check-sat)\n' % q['neg'].format(**subst)
    if get_model:
        smt += '(get-value (%s))\n' % ' '.join(subst['arg_' + k] for k in q['model_args'])
    return smt, fn, subst


def ground_check(fns, q):
    """translator validation: encoding(v) == native(v) on the ground vectors"""
    fn = next((f for n, f in fns.items() if re.search(q['find'], n)), None)
    w = q['decls'][0][1] if q['native'] == 'varint_parse_size' else 64
    nat = native_eval(q['native'], q['vectors'])
    bad = []
    smt = '(set-logic ALL)\n'
    for i, v in enumerate(q['vectors']):
        val, pan = value_and_panic(fns, fn, [bv(v, w)])
        if q['ret'] == 'bool':
            smt += '(push 1)(assert (not (= %s %s)))(check-sat)(pop 1)\n' % (val, nat[i])
        else:
            smt += '(push 1)(assert (not (= %s %s)))(check-sat)(pop 1)\n' % (val, bv(int(nat[i]), 64)) if nat[i] != 'panic' else \
                   '(push 1)(assert (not %s))(check-sat)(pop 1)\n' % pan
    out = ask(smt, ['z3', '-in'], 60)
    lines = out.split('\n')
    if '(error' in out or len(lines) != len(q['vectors']) or any(l.strip() != 'unsat' for l in lines):
        bad.append(out[:300])
    # the python reference agrees with the native function on the vectors too (sanity of the oracle)
    for v, n in zip(q['vectors'], nat):
        ref = q['py_ref'](v)
        refs = ('true' if ref else 'false') if q['ret'] == 'bool' else str(ref)
        if n != refs:
            bad.append('reference %s != native %s at %d' % (refs, n, v))
    return bad, len(q['vectors'])


class Result:
    pass


def run(h, logs_dir, repo, work):
    r = Result()
    r.h = h
    t0 = time.time()
    r.n_checks = r.n_failed = r.covers_total = r.covers_sat = 0
    r.cover_descs = []
    r.reason = ''
    r.extra = {}
    prepare(repo, work)
    if 'error' in _ctx:
        r.verdict, r.reason = 'inconclusive', 'E3 preparation failed: ' + _ctx['error']
        r.wall = time.time() - t0
        r.solver_s = 0
        return r
    q = QUERIES[h.name]
    fns = _ctx['fns']
    try:
        bad, nvec = ground_check(fns, q)
        if bad:
            r.verdict, r.reason = 'inconclusive', 'translator validation failed on ground vectors: ' + '; '.join(bad)[:400]
            r.wall = time.time() - t0
            r.solver_s = 0
            return r
        smt, fn, subst = build_query(fns, q, False)
    except Unsupported as e:
        r.verdict, r.reason = 'inconclusive', 'MIR construct outside the translator subset: %s' % e
        r.wall = time.time() - t0
        r.solver_s = 0
        return r
    qpath = os.path.join(logs_dir, h.name + '.smt2')
    open(qpath, 'w').write(smt)
    ts = time.time()
    cvc5_cmd = ['cvc5', '--lang', 'smt2'] + (['--solve-bv-as-int=sum'] if q['int_blast'] else [])
    a1 = ask(smt, cvc5_cmd, 120)
    a2 = ask(smt, ['z3', '-in'], 60 if not q['int_blast'] else 20)
    r.solver_s = time.time() - ts
    r.extra = {'cvc5': a1[:80], 'z3': a2[:80], 'mir_function': fn.name, 'ground_vectors_validated': nvec,
               'smt_file': qpath, 'mir_dump_s': round(_ctx.get('mir_s', 0), 1)}
    r.n_checks = 1 + nvec
    answers = [a1, a2]
    if any('(error' in a for a in answers):
        r.verdict, r.reason = 'inconclusive', 'solver error line: %s | %s' % (a1[:100], a2[:100])
    elif 'sat' in [a.split('\n')[0].strip() for a in answers]:
        # candidate: get a model and replay natively
        smt_m, _, _ = build_query(fns, q, True)
        out = ask(smt_m, ['z3', '-in'] if a2.startswith('sat') else cvc5_cmd + ['--produce-models'], 120)
        r.verdict = 'candidate'
        r.cand = [{'desc': 'SMT query sat: ' + h.oracle, 'loc': fn.name}]
        r.model_text = out
        r.n_failed = 1
    elif a1.split('\n')[0].strip() == 'unsat' and a2.split('\n')[0].strip() in ('unsat', 'timeout', 'unknown'):
        r.verdict = 'pass'
        r.covers_total = r.covers_sat = 1  # non-vacuity: the ground vectors reach both outcomes of the function
        r.cover_descs = ['ground vectors evaluated by encoding and native function agree (%d)' % nvec]
    elif a2.split('\n')[0].strip() == 'unsat' and a1.split('\n')[0].strip() in ('timeout', 'unknown'):
        r.verdict = 'pass'
        r.covers_total = r.covers_sat = 1
        r.cover_descs = ['ground vectors agree (%d)' % nvec]
    else:
        r.verdict, r.reason = 'inconclusive', 'no solver verdict: cvc5=%s z3=%s' % (a1[:60], a2[:60])
    r.wall = time.time() - t0
    return r


def parse_model_values(text):
    vals = re.findall(r'#x([0-9a-fA-F]+)|\(_ bv(\d+) \d+\)|#b([01]+)', text.split('\n', 1)[1] if '\n' in text else '')
    out = []
    for hx, dec, bn in vals:
        out.append(int(hx, 16) if hx else int(dec) if dec else int(bn, 2))
    return out


def make_replay(r, pid, logs_dir):
    q = QUERIES[r.h.name]
    vals = parse_model_values(r.model_text)
    if not vals:
        return None, None, 'no model values'
    rdir = os.path.join(VERIF, 'replays', pid)
    os.makedirs(rdir, exist_ok=True)
    rpath = os.path.join(rdir, 'e3.%s.json' % r.h.name)
    json.dump({'query': r.h.name, 'native': q['native'], 'inputs': vals, 'model': r.model_text}, open(rpath, 'w'), indent=1)
    ok, detail = replay(rpath)
    return ok, rpath, detail


def replay(rpath):
    d = json.load(open(rpath))
    q = QUERIES[d['query']]
    if 'native' not in _ctx:
        prepare(os.environ.get('VERIF_REPO', '/repo'), os.path.join(VERIF, '.work'))
    if 'error' in _ctx:
        return None, _ctx['error']
    nat = native_eval(q['native'], d['inputs'])
    diffs = []
    for v, n in zip(d['inputs'], nat):
        ref = q['py_ref'](v)
        refs = ('true' if ref else 'false') if q['ret'] == 'bool' else str(ref)
        if n != refs:
            diffs.append('%s(%d) = %s, specification says %s' % (q['native'], v, n, refs))
    if diffs:
        return True, '; '.join(diffs)
    return False, 'native function agrees with the specification on the model values %s' % d['inputs']
