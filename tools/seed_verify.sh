#!/bin/bash
# usage: seed_verify.sh <name> [worktree]   -- confirms a seeded mutant produced in /tmp/seed-<Cxx> and stores it under /verif/seeded/<Cxx>/
# checks: (1) existing suite passes with the change, (2) demo fails with the change, (3) demo passes without it
set -u
id=$1
wt=${2:-/tmp/seed-$id}
out=/verif/seeded/$id
export CARGO_NET_OFFLINE=true CARGO_TARGET_DIR=$wt/target
cd $wt || exit 2
[ -f _seed/patch.diff ] || { echo "no patch"; exit 2; }
demo=$(ls wtransport-proto/tests/seed_demo.rs wtransport/tests/seed_demo.rs 2>/dev/null | head -1)
crate=$(echo $demo | cut -d/ -f1)
feat="--features quinn"; [ "$crate" = "wtransport-proto" ] && feat="--features async"
mkdir -p $out
# normalise: make sure the worktree has exactly the patch applied
git checkout -q -- . 2>/dev/null
git apply _seed/patch.diff || { echo "patch does not apply"; exit 2; }
git diff --stat
# (1) suite with change, demo moved aside
mv $demo /tmp/seed_demo_$id.rs
cargo test --workspace --offline > $out/suite_with_change.log 2>&1; s1=$?
mv /tmp/seed_demo_$id.rs $demo
# (2) demo with change
cargo test --offline -p $crate $feat --test seed_demo > $out/demo_with_change.log 2>&1; s2=$?
# (3) demo without change
git apply -R _seed/patch.diff
cargo test --offline -p $crate $feat --test seed_demo > $out/demo_without_change.log 2>&1; s3=$?
git apply _seed/patch.diff
echo "suite_with_change=$s1 demo_with_change=$s2 demo_without_change=$s3"
cp _seed/patch.diff $out/patch.diff
cp $demo $out/seed_demo.rs
cp _seed/meta.json $out/meta_agent.json 2>/dev/null
grep -h "test result" $out/suite_with_change.log | tr '\n' ' '; echo
grep -h "test result" $out/demo_with_change.log $out/demo_without_change.log
if [ $s1 -eq 0 ] && [ $s2 -ne 0 ] && [ $s3 -eq 0 ]; then echo "CONFIRMED $id"; else echo "NOT-CONFIRMED $id"; fi
